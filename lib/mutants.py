#!/usr/bin/env python3
"""Systematic mutation run (not a registered check): single-token mutants of one library source file, each built into a scratch
copy of the harness (REPO=<scratch worktree>) and run against the quick tier of the named checks.  Survivors (no check fired)
are then run against the pinned suite in the scratch worktree; a survivor that also passes the suite is a gap to look at
(or an equivalent mutant).  Never touches /repo's working tree.

usage: lib/mutants.py <file relative to /repo> <check>[,<check>...] [max_mutants] [slots]
"""
import os, re, sys, random, subprocess, shutil, json, time
from concurrent.futures import ThreadPoolExecutor

REL = sys.argv[1]
CHECKS = sys.argv[2].split(',')
MAXM = int(sys.argv[3]) if len(sys.argv) > 3 else 60
SLOTS = int(sys.argv[4]) if len(sys.argv) > 4 else 3
TAG = re.sub(r'[^A-Za-z0-9]', '_', REL)

RULES = [
    (r'<=', '<'), (r'>=', '>'), (r'(?<![<>=!-])<(?![<=])', '<='), (r'(?<![<>=!-])>(?![>=])', '>='),
    (r'==', '!='), (r'!=', '=='), (r'&&', '||'), (r'\|\|', '&&'),
    (r'\+ 1u?\b', ''), (r'- 1u?\b', ''), (r'\+\+', '--'), (r'(?<![+\-eE(,=<>*/&|!~^ ]) \+ ', ' - '), (r'(?<![+\-eE(,=<>*/&|!~^ ]) - ', ' + '),
    (r'\b0u\b', '1u'), (r'\b1u\b', '2u'), (r'!(?=[a-zA-Z_(])', ''), (r'\btrue\b', 'false'), (r'\bfalse\b', 'true'),
    (r'\+=', '-='), (r'-=', '+='), (r'\bbreak;', ';'), (r'\bcontinue;', ';'),
]


def mutants(src):
    out = []
    lines = src.split('\n')
    incomment = False
    for i, l in enumerate(lines):
        st = l.strip()
        if incomment:
            if '*/' in st:
                incomment = False
            continue
        if st.startswith('/*') and '*/' not in st:
            incomment = True
            continue
        if not st or st.startswith(('#', '//', '/*', '*', 'assert', 'static_assert', 'typedef', 'extern')) or 'printf' in st:
            continue
        code = l.split('/*')[0]
        for pat, rep in RULES:
            for m in re.finditer(pat, code):
                new = l[:m.start()] + rep + l[m.end():]
                if new != l:
                    out.append((i, l, new))
        # statement deletion of simple assignments
        if re.match(r'^\s+[A-Za-z_][\w\->.\[\]]*\s*(=|\+=|-=|\|=|&=)\s*[^=].*;\s*$', l) and not re.match(r'^\s*(const|unsigned|int|size_t|ssize_t|uint|struct|char|bool|Register|RP|void)', l):
            out.append((i, l, re.match(r'^\s*', l).group(0) + ';'))
    return out


def sh(cmd, cwd=None, env=None, timeout=None):
    return subprocess.run(cmd, shell=True, cwd=cwd, env=env, stdout=subprocess.PIPE, stderr=subprocess.STDOUT, text=True, timeout=timeout)


def slot_dirs(k):
    return '/tmp/mu-%s-repo-%d' % (TAG, k), '/tmp/mu-%s-verif-%d' % (TAG, k)


def setup_slot(k):
    wt, vc = slot_dirs(k)
    sh('git -C /repo worktree remove --force %s; rm -rf %s %s' % (wt, wt, vc))
    r = sh('git -C /repo worktree add -q --detach %s HEAD' % wt)
    if r.returncode:
        raise SystemExit(r.stdout)
    sh('mkdir -p %s && rsync -a --exclude .git --exclude out --exclude build --exclude evidence --exclude seeded /verif/ %s/ && mkdir -p %s/evidence' % (vc, vc, vc))
    env = dict(os.environ, REPO=wt, VERIF_NCPU=str(max(2, 16 // SLOTS)))
    sh('make -s -C harness -j8 all', cwd=vc, env=env)


def run_mutant(k, idx, m, orig):
    wt, vc = slot_dirs(k)
    i, old, new = m
    lines = orig.split('\n')
    lines[i] = new
    open(os.path.join(wt, REL), 'w').write('\n'.join(lines))
    env = dict(os.environ, REPO=wt, VERIF_NCPU=str(max(2, 16 // SLOTS)))
    res = {}
    try:
        b = sh('make -s -C harness -j8 all 2>&1 | tail -3', cwd=vc, env=env, timeout=600)
        if 'rror' in b.stdout:
            return dict(idx=idx, line=i + 1, old=old.strip(), new=new.strip(), status='nocompile')
        for c in CHECKS:
            r = sh('timeout 900 python3 lib/check.py %s --tier quick' % c, cwd=vc, env=env, timeout=1000)
            res[c] = r.returncode
            if r.returncode == 1:
                break
    except subprocess.TimeoutExpired:
        res['timeout'] = 1
    finally:
        open(os.path.join(wt, REL), 'w').write(orig)
    killed = any(v == 1 for v in res.values())
    return dict(idx=idx, line=i + 1, old=old.strip(), new=new.strip(), status='killed' if killed else ('timeout' if 'timeout' in res else ('error' if any(v not in (0, 1) for v in res.values()) else 'survived')), rc=res)


def suite(k, m, orig):
    wt, vc = slot_dirs(k)
    i, old, new = m
    lines = orig.split('\n')
    lines[i] = new
    open(os.path.join(wt, REL), 'w').write('\n'.join(lines))
    try:
        r = sh('(cmake -G Ninja -B _build -DCMAKE_BUILD_TYPE=RelWithDebInfo >/dev/null 2>&1; cmake --build _build 2>&1 | grep -c "error:"; timeout 900 ctest --test-dir _build -j4 2>&1 | grep -E "tests passed|tests failed")', cwd=wt, timeout=1500)
        ok = '100% tests passed, 0 tests failed' in r.stdout
    except subprocess.TimeoutExpired:
        ok = False
    finally:
        open(os.path.join(wt, REL), 'w').write(orig)
    return ok


def main():
    orig = open(os.path.join('/repo', REL)).read()
    ms = mutants(orig)
    rnd = random.Random(int(os.environ.get('VERIF_SEED', '1')))
    rnd.shuffle(ms)
    ms = ms[:MAXM]
    print('%s: %d mutants, checks %s' % (REL, len(ms), CHECKS), flush=True)
    for k in range(SLOTS):
        setup_slot(k)
    results = []
    import queue
    free = queue.Queue()
    for k in range(SLOTS):
        free.put(k)

    def job(idx):
        k = free.get()
        try:
            r = run_mutant(k, idx, ms[idx], orig)
            if r['status'] == 'survived':
                r['suite_passes'] = suite(k, ms[idx], orig)
            print(json.dumps(r), flush=True)
            return r
        finally:
            free.put(k)

    with ThreadPoolExecutor(max_workers=SLOTS) as ex:
        results = list(ex.map(job, range(len(ms))))
    for k in range(SLOTS):
        wt, vc = slot_dirs(k)
        sh('git -C /repo worktree remove --force %s; rm -rf %s %s' % (wt, wt, vc))
    sh('git -C /repo worktree prune')
    from collections import Counter
    c = Counter(r['status'] for r in results)
    print('SUMMARY %s %s gaps=%d' % (REL, dict(c), sum(1 for r in results if r.get('suite_passes'))), flush=True)


main()
