import json, os, random, sys
sys.path.insert(0, os.path.dirname(os.path.abspath(__file__)))
import vf

CASES = [  # (property dir, record glob prefix, trace module, cfg, ops whose removal must be noticed)
    ('C18', 'bbtrace', 'ByteBufferTrace.tla', 'ByteBufferTrace.cfg', ('add',)),
    ('C19', 'rbtrace', 'RingBufferTrace.tla', 'RingBufferTrace.cfg', ('put',)),
    ('C10', 'pstrace', 'PersistentTrace.tla', 'PersistentTrace.cfg', ('store',)),
    ('C05', 'hist', 'RegTableTrace.tla', 'RegTableTrace.cfg', ('bwrite', 'set')),
    ('C06', 'req', 'RegpTrace.tla', 'RegpTrace.cfg', ()),
    ('C17', 'endptrace', 'EndpointsTrace.tla', 'EndpointsTrace.cfg', ()),
    ('C12', 'sliptrace', 'SlipTrace.tla', 'SlipTrace.cfg', ()),
    ('C20', 'sxtrace', 'SxTrace.tla', 'SxTrace.cfg', ()),
]


def main():
    rnd = random.Random(7)
    bad = 0
    import subprocess
    for pid, prefix, mod, cfg, drops in CASES:
        # fresh traces from the current tree
        r = subprocess.run([os.path.join(vf.ROOT, 'bin', 'check'), pid, '--tier', 'quick'], stdout=subprocess.PIPE, stderr=subprocess.STDOUT, text=True)
        if r.returncode != 0:
            print('%s: quick check does not pass on this tree (rc=%d); skipping' % (pid, r.returncode))
            bad += 1
            continue
        path = os.path.join(vf.OUT, pid, '%s-rec00.ndjson' % prefix)
        if not os.path.exists(path):
            print('%s: no recorded trace (run bin/check %s first)' % (pid, pid))
            bad += 1
            continue
        lines = [l for l in open(path).read().split('\n') if l][:400]
        base = os.path.join(vf.OUT, pid, 'selftest-base.ndjson')
        open(base, 'w').write('\n'.join(lines) + '\n')
        ok, matched, _ = vf.validate_trace(mod, cfg, base, 'self')
        print('%s: recorded trace of %d events: %s' % (pid, len(lines), 'accepted' if ok else 'REJECTED at %d' % matched))
        if not ok:
            bad += 1
            continue
        # corrupt one observation value
        idx = [i for i, l in enumerate(lines) if json.loads(l).get('o')]
        i = idx[len(idx) // 2]
        e = json.loads(lines[i])
        k = rnd.randrange(len(e['o']))
        e['o'][k] = e['o'][k] + 1
        mut = lines[:i] + [json.dumps(e, separators=(',', ':'))] + lines[i + 1:]
        p2 = os.path.join(vf.OUT, pid, 'selftest-corrupt.ndjson')
        open(p2, 'w').write('\n'.join(mut) + '\n')
        ok2, m2, _ = vf.validate_trace(mod, cfg, p2, 'self')
        print('   observation %d of event %d (%s) changed by one: %s' % (k, i + 1, e['op'], 'accepted (BINDING TOO WEAK)' if ok2 else 'rejected at event %d' % (m2 + 1)))
        if ok2 or m2 != i:
            bad += 1
        # drop a state-changing event
        cand = [j for j, l in enumerate(lines) if json.loads(l)['op'] in drops and json.loads(l)['o'] and json.loads(l)['o'][0] == 0]
        if cand:
            j = cand[len(cand) // 3]
            p3 = os.path.join(vf.OUT, pid, 'selftest-drop.ndjson')
            open(p3, 'w').write('\n'.join(lines[:j] + lines[j + 1:]) + '\n')
            ok3, m3, _ = vf.validate_trace(mod, cfg, p3, 'self')
            print('   successful %s event %d removed: %s' % (json.loads(lines[j])['op'], j + 1, 'accepted (history not constrained here)' if ok3 else 'rejected at event %d' % (m3 + 1)))
    print('selftest: %s' % ('OK' if bad == 0 else '%d problems' % bad))
    sys.exit(1 if bad else 0)


main()
