#!/usr/bin/env python3
"""Writes the brief for one seeding sub-agent: lib/seedbrief.py <letter> <Cxx> <Cxx> ...  -> /tmp/prompt-<letter>.txt

The brief contains only the text of the properties, one-line descriptions of the changes already filed for them (so that the
agent produces something different) and a general description of what the harness varies - nothing from /verif is shown."""
import glob
import json
import os
import sys

HERE = os.path.dirname(os.path.abspath(__file__))
ROOT = os.path.dirname(HERE)

HEAD = """You are helping evaluate a verification setup for the embedded C library "ufw" by producing realistic, SUBTLE regressions ("seeded changes"). You have {n} scratch git worktrees of the library: {wts} (all at the same commit). Work ONLY inside those directories and the result directories /tmp/seed-{L}1 .. /tmp/seed-{L}{n}. Never touch /repo or /verif (do not even read them). No network is available.

Build and test a worktree like this (takes ~1 minute, longer when the machine is busy):
  cd /tmp/wt-{L}X && cmake -G Ninja -B _build -DCMAKE_BUILD_TYPE=RelWithDebInfo >/dev/null && cmake --build _build >/dev/null && ctest --test-dir _build -j4 2>&1 | tail -3
The suite must report "100% tests passed, 0 tests failed".

For each of the {n} semantic properties below ({L}1 -> first property, ...), produce ONE change to the library sources (src/ or include/) in the corresponding worktree such that
 (a) the library still compiles without new warnings and the whole existing test suite still passes, unedited;
 (b) the change breaks the stated property for some inputs/configurations/histories;
 (c) the breakage needs something SPECIFIC and unusual to manifest - not every call, not the most common path. The verification harness you are up against is model-based and already varies a lot: endpoint styles (octet/chunk, fragmenting, offering their own buffers), endpoints that fail with varying error codes or are full, allocator flavours, base addresses up to 2^32, buffer sizes up to 64 KiB+ and frames beyond 64 KiB, lengths near SIZE_MAX and INT_MAX, configuration call orders, garbage-filled structs before init, all constraint kinds and type limits, zero-sized areas, sessions of several hundred frames including malformed responses and meta messages, re-entrant callbacks, tables and rings beyond 65536 entries, prior memory content, re-used buffer and context objects, drivers that interrupt hundreds of times, failing sinks followed by further requests, instances that live on after a reported failure, unknown flag bits, totals near SSIZE_MAX, buffers with more than 4 GiB of room, sinks, drivers, backends and callbacks that re-enter the library (all entry points), areas without read or write functions, callback results of any magnitude, the library's own chunk-list source with empty fragments, checksum collisions and compensating double faults, instances without memory, static initialisers and construction macros, thousands of rejected inputs in one process; the code runs unoptimised under AddressSanitizer and UndefinedBehaviorSanitizer on exact-size heap blocks, so over-reads, misaligned accesses and overflows are seen. Changes must break the property for configurations the library actually supports (no undefined flag bits, no capacity 0, no area that has both callbacks and a memory pointer), and must not merely pick another of several equally valid answers where the property leaves a choice (which of several applicable failure classes is reported, rule-major versus index-major 'first' violation). So look for what such a harness would STILL not see: behaviour that depends on the VALUE of data in an unusual way (one particular octet value in one particular position, e.g. a payload or address octet equal to a framing/control octet, a checksum that happens to be 0x0000 or 0xFFFF, a sequence number of 0xFFFF), on HISTORY across several calls on the same long-lived object (the 3rd operation after a particular failure, a counter that wraps after 256 or 65536 uses, stale state from a previous frame or previous table), on exact RELATIONS between two independent parameters (length equal to capacity minus header, offset equal to used, two fields equal to each other), or on rarely combined OPTIONS (an option bit combination the library itself never emits but must accept).
 (d) it looks like a plausible maintainer slip or "optimisation" (small diff, 1-10 lines), not sabotage, and does not special-case a magic input value.
Each change must be DIFFERENT in nature and location from the already-known ones listed with each property (do not repeat them, and do not merely move the same idea to a sibling function).

The {n} properties:
"""

TAIL = """
For each one write into /tmp/seed-{L}X/:
  - patch.diff : output of `git -C /tmp/wt-{L}X diff` (must apply cleanly with `git apply` to a clean checkout of the same commit);
  - demo.c : a small standalone C program using only the library's public headers that exits 0 on the unmodified library and exits non-zero (or is killed by a sanitizer) on the changed one, demonstrating the property violation. Its FIRST comment line must contain the exact compile-and-run command, in the form
      /* cc -std=gnu99 -DNDEBUG -DSYSTEM_ENDIANNESS_LITTLE -I/tmp/wt-{L}X/include -I/tmp/wt-{L}X/_build/include demo.c <needed .c files of /tmp/wt-{L}X/src> -lm -o demo && ./demo */
    (compile the needed library .c files directly so the demo always follows the worktree's source state; check which generated headers, e.g. ufw/toolchain.h, live under _build and adjust the -I; `ninja -C _build -v` or compile_commands.json show how the tests are compiled). The command is executed from the directory that contains demo.c.
  - meta.json : {{"property": the Cxx id given in parentheses above, "summary": one sentence what changed, "needs": what specific condition triggers it, "files": [changed files]}}.
Verify each yourself: clean tree -> demo exits 0; patched tree -> suite 100% passes AND demo exits non-zero. Leave the worktrees in the PATCHED state when done. Report a short table at the end (seed, file, one-line description, trigger). If for some property you cannot find a change that the suite does not catch after serious effort, say so and produce the best alternative for the same property.
"""


def main():
    letter, ids = sys.argv[1], sys.argv[2:]
    props = {}
    for line in open(os.path.join(ROOT, 'properties.jsonl')):
        p = json.loads(line)
        props[p['id']] = p
    n = len(ids)
    out = [HEAD.format(n=n, L=letter, wts=', '.join('/tmp/wt-%s%d' % (letter, i + 1) for i in range(n)))]
    for i, pid in enumerate(ids):
        p = props[pid]
        out.append('%s%d (%s): "%s: %s"' % (letter, i + 1, pid, p['title'], p['statement']))
        out.append('   Already known for this property (do not repeat):')
        for d in sorted(glob.glob(os.path.join(ROOT, 'seeded', pid + '-*')), key=lambda s: int(s.rsplit('-', 1)[1])):
            m = json.load(open(os.path.join(d, 'meta.json')))
            out.append('     - ' + m['summary'][:260])
        out.append('')
    out.append(TAIL.format(L=letter))
    path = '/tmp/prompt-%s.txt' % letter
    open(path, 'w').write('\n'.join(out))
    print(path, len('\n'.join(out)))


if __name__ == '__main__':
    main()
