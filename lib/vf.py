"""Orchestration shared by all checks (stdlib only).

E0: run TLC on a model (exhaustive or simulation), collect its verdict and statistics.
E1: turn the transitions TLC emitted (ACTION_CONSTRAINT Emit) into scripts and replay them
    against the real library through an executor built from /repo's working tree.
E2: record executions of the real library and let TLC validate them with a *Trace.tla spec.
"""
import json, os, random, re, subprocess, sys, time, collections, shutil, hashlib

ROOT = os.path.dirname(os.path.dirname(os.path.abspath(__file__)))
SPEC = os.path.join(ROOT, 'spec')
BUILD = os.path.join(ROOT, 'build')
OUT = os.path.join(ROOT, 'out')
NCPU = min(16, os.cpu_count() or 4, int(os.environ.get('VERIF_NCPU', '16')))
ASAN_ENV = 'strict_string_checks=1:halt_on_error=0:detect_leaks=0:allocator_may_return_null=1:detect_stack_use_after_return=0:print_summary=0:max_malloc_fill_size=0'


class MachineryError(Exception):
    pass


# children (TLC JVMs, executors) are tracked so that a terminated check does not leave them running
_children = set()


def _kill_children(*_a):
    for p in list(_children):
        try:
            p.kill()
        except Exception:
            pass
    if _a:
        os._exit(2)


import atexit, signal
atexit.register(_kill_children)
try:
    signal.signal(signal.SIGTERM, _kill_children)
    signal.signal(signal.SIGINT, _kill_children)
except ValueError:
    pass


def die(msg, code=2):
    print('MACHINERY-ERROR: ' + msg)
    sys.stdout.flush()
    sys.exit(code)


def seed():
    try:
        return int(os.environ.get('VERIF_SEED', '1'))
    except ValueError:
        return 1


def rounds(tier, n):
    """Random generators for the sampled families: one for the quick tier, n independent ones for the thorough tier
    (the thorough tier repeats every sampled family with fresh tables / histories / operands)."""
    import random as _r
    k = 1 if tier != 'thorough' else n
    return [_r.Random(seed() + 7919 * i) for i in range(k)]


def outdir(pid):
    d = os.path.join(OUT, pid)
    os.makedirs(d, exist_ok=True)
    return d


# --------------------------------------------------------------------------- build

def build():
    """(Re)build every executor from /repo's current working tree."""
    os.makedirs(BUILD, exist_ok=True)
    lock = os.path.join(BUILD, '.lock')
    cmd = 'flock %s make -s -C %s -j%d all' % (lock, os.path.join(ROOT, 'harness'), NCPU)
    r = subprocess.run(cmd, shell=True, stdout=subprocess.PIPE, stderr=subprocess.STDOUT, text=True)
    if r.returncode != 0:
        print(r.stdout[-4000:])
        die('build of /repo sources or harness failed')


# --------------------------------------------------------------------------- TLC

class TlcResult:
    def __init__(self):
        self.lines = []        # emitted payload lines (without quotes)
        self.generated = 0
        self.distinct = 0
        self.depth = 0
        self.ok = False
        self.violation = None  # text of invariant/property violation
        self.raw_tail = ''
        self.wall = 0.0
        self.rc = None


_re_stats = re.compile(r'^(\d+) states generated, (\d+) distinct states found')
_re_depth = re.compile(r'depth of the complete state graph search is (\d+)')


def tlc(module, cfg, tag, workers=None, env=None, simulate=None, timeout=3000, heap='8g',
        extra=None, collect_prefixes=('E;;', 'I;;', 'C;;'), deadlock=False, sink=None):
    """Run TLC on spec/<module>.tla with spec/<cfg>.  `sink(line)` receives emitted lines
    (strings printed by PrintT whose text starts with one of collect_prefixes)."""
    workers = workers or NCPU
    import uuid
    meta = os.path.join(OUT, '_tlc', '%s-%d-%s' % (tag, os.getpid(), uuid.uuid4().hex[:12]))
    os.makedirs(meta, exist_ok=True)
    cmd = ['timeout', str(timeout), 'java', '-XX:+UseParallelGC', '-Xss512m', '-Xmx' + heap, '-Djava.io.tmpdir=' + meta,   # (TLC's own temporary directories go with the metadir)
           '-cp', '/opt/veriftools/tla/tla2tools.jar:/opt/veriftools/tla/CommunityModules-deps.jar',
           'tlc2.TLC', '-workers', str(workers), '-metadir', meta, '-noGenerateSpecTE',
           '-config', cfg]
    if not deadlock:
        pass
    if simulate:
        cmd += ['-simulate', simulate]
    if extra:
        cmd += extra
    cmd += [module]
    e = dict(os.environ)
    if env:
        e.update({k: str(v) for k, v in env.items()})
    res = TlcResult()
    t0 = time.time()
    cmd[0:2] = []          # the JVM is killed by us on timeout (no wrapper process that would orphan it)
    p = subprocess.Popen(cmd, cwd=SPEC, stdout=subprocess.PIPE, stderr=subprocess.STDOUT, text=True, env=e,
                         bufsize=1 << 20)
    _children.add(p)
    import threading
    killer = threading.Timer(timeout, p.kill)
    killer.daemon = True
    killer.start()
    tail = collections.deque(maxlen=60)
    viol = []
    inviol = False
    for line in p.stdout:
        line = line.rstrip('\n')
        if line.startswith('"'):
            body = line[1:-1] if line.endswith('"') else line[1:]
            if body.startswith(collect_prefixes):
                if sink is not None:
                    sink(body)
                else:
                    res.lines.append(body)
                continue
        tail.append(line)
        m = _re_stats.match(line)
        if m:
            res.generated, res.distinct = int(m.group(1)), int(m.group(2))
        m = _re_depth.search(line)
        if m:
            res.depth = int(m.group(1))
        if line.startswith('Error:'):
            inviol = True
        if inviol and len(viol) < 80:
            viol.append(line)
    p.wait()
    killer.cancel()
    _children.discard(p)
    res.rc = p.returncode
    res.wall = time.time() - t0
    res.raw_tail = '\n'.join(tail)
    if viol:
        res.violation = '\n'.join(viol)
    res.ok = (p.returncode == 0 and not viol)
    shutil.rmtree(meta, ignore_errors=True)
    return res


def tlc_must_pass(*a, **kw):
    r = tlc(*a, **kw)
    if not r.ok:
        print(r.violation or r.raw_tail)
        die('TLC did not accept the specification itself (%s %s, rc=%s): the design-level property fails or the model is broken'
            % (a[0], a[1], r.rc))
    return r


# --------------------------------------------------------------------------- graphs from emitted edges

class Graph:
    """Transition relation emitted by TLC:  E;;pre;;post;;<event line>   and   I;;init"""

    def __init__(self):
        self.out = collections.defaultdict(list)   # pre -> [(evline, post)]
        self.inits = []
        self.nedges = 0
        self._seen = set()

    def feed(self, body):
        if body.startswith('E;;'):
            _, pre, post, ev = body.split(';;', 3)
            k = (pre, ev)
            if k in self._seen:
                return
            self._seen.add(k)
            self.out[pre].append((ev, post))
            self.nedges += 1
        elif body.startswith('I;;'):
            k = body[3:]
            if k not in self.inits:
                self.inits.append(k)

    def finish(self):
        self._seen = None
        for k in self.out:
            self.out[k].sort()
        if not self.inits:
            raise MachineryError('model emitted no initial state')

    def succ_states(self, u):
        """distinct successor states of u with one event leading there (cached)"""
        c = self.__dict__.setdefault('_succ', {})
        r = c.get(u)
        if r is None:
            d = {}
            for ev, v in self.out.get(u, ()):
                if v not in d and v != u:
                    d[v] = ev
            r = c[u] = list(d.items())
        return r

    def states(self):
        s = set(self.out.keys())
        for k in list(self.out.keys()):
            for _, post in self.out[k]:
                s.add(post)
        return s

    def bfs_paths(self, init):
        """shortest event path from init to every state"""
        parent = {init: None}
        q = collections.deque([init])
        while q:
            u = q.popleft()
            for v, ev in self.succ_states(u):
                if v not in parent:
                    parent[v] = (u, ev)
                    q.append(v)
        return parent

    @staticmethod
    def path_to(parent, s):
        p = []
        while parent[s] is not None:
            u, ev = parent[s]
            p.append(ev)
            s = u
        p.reverse()
        return p

    def covering_walks(self, maxlen=400):
        """Greedy edge cover: walks from an initial state that together take every reachable edge at
        least once.  Yields lists of event lines."""
        for init in self.inits:
            parent = self.bfs_paths(init)
            untaken = {u: list(range(len(self.out.get(u, ())))) for u in parent}
            remaining = sum(len(v) for v in untaken.values())
            cur = init
            walk = []
            while remaining > 0:
                if untaken[cur] and len(walk) < maxlen:
                    i = untaken[cur].pop()
                    ev, v = self.out[cur][i]
                    walk.append(ev)
                    remaining -= 1
                    cur = v
                    continue
                # nearest state with an untaken edge, from cur (bounded BFS), else restart
                tgt = None
                if len(walk) < maxlen:
                    seen = {cur: None}
                    q = collections.deque([cur])
                    while q:
                        u = q.popleft()
                        if untaken[u]:
                            tgt = u
                            break
                        for v, ev in self.succ_states(u):
                            if v not in seen:
                                seen[v] = (u, ev)
                                q.append(v)
                    if tgt is not None:
                        hop = Graph.path_to(seen, tgt)
                        if len(walk) + len(hop) < maxlen:
                            walk.extend(hop)
                            cur = tgt
                            continue
                if walk:
                    yield walk
                # restart at init, go to some state with untaken edges by shortest path
                tgt = next(u for u in untaken if untaken[u])
                walk = Graph.path_to(parent, tgt)
                cur = tgt
            if walk:
                yield walk

    def all_paths(self, depth, budget):
        """All event paths of length <= depth from the initial states (each maximal path once, every
        prefix is thereby executed), stopping after `budget` paths."""
        n = 0
        for init in self.inits:
            stack = [(init, [])]
            while stack:
                u, path = stack.pop()
                succ = self.out.get(u, ())
                if len(path) == depth or not succ:
                    if path:
                        yield path
                        n += 1
                        if n >= budget:
                            return
                    continue
                for ev, v in succ:
                    stack.append((v, path + [ev]))

    def random_walks(self, count, length, rnd):
        for _ in range(count):
            cur = rnd.choice(self.inits)
            walk = []
            for _ in range(length):
                succ = self.out.get(cur)
                if not succ:
                    break
                ev, cur = rnd.choice(succ)
                walk.append(ev)
            if walk:
                yield walk


def tlc_graph(module, cfg, tag, **kw):
    g = Graph()
    r = tlc_must_pass(module, cfg, tag, sink=g.feed, **kw)
    g.finish()
    return g, r


# --------------------------------------------------------------------------- executor

class ExecResult:
    def __init__(self):
        self.executed = 0
        self.checked = 0
        self.problems = []   # dicts: kind (MISMATCH/ASAN/CRASH/HANG), line, tag, text, script(list of lines)
        self.records = []    # paths of ndjson files when record=True


def _run_shard(exe, path, record_path):
    """run one script file; restart after crashes; returns (executed, checked, problems)"""
    with open(path) as f:
        lines = f.read().split('\n')
    start = 0
    executed = checked = 0
    problems = []
    env = dict(os.environ)
    env['ASAN_OPTIONS'] = ASAN_ENV
    rec = open(record_path, 'w') if record_path else None
    guard = 0
    while start < len(lines):
        guard += 1
        if guard > 2000:
            problems.append(dict(kind='CRASH', line=start, tag='-', text='too many executor crashes; giving up on shard'))
            break
        data = '\n'.join(lines[start:]) + '\n'
        args = [os.path.join(BUILD, exe)] + (['-r'] if rec else [])
        p = subprocess.run(args, input=data, stdout=subprocess.PIPE, stderr=subprocess.DEVNULL, text=True, env=env)
        done = False
        crashed_at = None
        for ol in p.stdout.split('\n'):
            if not ol:
                continue
            if ol[0] == '{':
                if rec:
                    rec.write(ol + '\n')
                continue
            w = ol.split(' ', 3)
            if w[0] in ('MISMATCH', 'ASAN', 'CRASH', 'HANG'):
                ln = int(w[1]) + start
                problems.append(dict(kind=w[0], line=ln, tag=w[2], text=w[3] if len(w) > 3 else ''))
                if w[0] in ('CRASH', 'HANG'):
                    crashed_at = ln
            elif w[0] == 'DONE':
                m = re.search(r'executed=(\d+) checked=(\d+)', ol)
                executed += int(m.group(1))
                checked += int(m.group(2))
                done = True
        if done:
            break
        if crashed_at is None:
            # died without telling (e.g. SIGSEGV inside the runtime, SIGKILL)
            problems.append(dict(kind='CRASH', line=start + 1, tag='-', text='executor died, rc=%s' % p.returncode))
            crashed_at = start + 1
        # resume at the next script boundary after the crash
        nxt = None
        for i in range(crashed_at, len(lines)):
            if lines[i].startswith('@'):
                nxt = i
                break
        if nxt is None:
            break
        start = nxt
    if rec:
        rec.close()
    # attach the script (from its '@' line to the failing line) to each problem
    for pr in problems:
        ln = pr['line'] - 1
        b = ln
        while b > 0 and not lines[b].startswith('@'):
            b -= 1
        pr['script'] = lines[b:ln + 1]
    return executed, checked, problems


def run_scripts(exe, scripts, pid, name='e1', record=False, shards=None, flavours=0, flav_every=40):
    """scripts: iterable of lists of lines (each list is one script, started from a fresh object).
    Returns ExecResult.  Scripts are distributed round-robin over shard files executed in parallel."""
    from concurrent.futures import ThreadPoolExecutor
    d = outdir(pid)
    shards = shards or NCPU
    files = [open(os.path.join(d, '%s-shard%02d.txt' % (name, i)), 'w') for i in range(shards)]
    n = 0
    for sc in scripts:
        f = files[n % shards]
        f.write('@%s-%d\n' % (name, n))
        if flavours:
            # endpoint flavours of the harness (driver.h): directives, not events; cycled deterministically
            sc = list(sc)
            out = []
            for i, l in enumerate(sc):
                if i % flav_every == 0:
                    out.append('!flav %d' % ((n + i // flav_every) % flavours))
                out.append(l)
            sc = out
        f.write('\n'.join(sc))
        f.write('\n')
        n += 1
    for f in files:
        f.close()
    res = ExecResult()
    res.nscripts = n
    jobs = []
    with ThreadPoolExecutor(max_workers=shards) as ex:
        for i in range(shards):
            path = files[i].name
            rp = os.path.join(d, '%s-rec%02d.ndjson' % (name, i)) if record else None
            if rp:
                res.records.append(rp)
            jobs.append(ex.submit(_run_shard, exe, path, rp))
        for j in jobs:
            e, c, pr = j.result()
            res.executed += e
            res.checked += c
            res.problems.extend(pr)
    if not record:
        for f in files:
            try:
                os.unlink(f.name)
            except OSError:
                pass
    return res


# --------------------------------------------------------------------------- trace validation (E2)

def validate_trace(module, cfg, trace_path, tag, timeout=1800, heap='4g'):
    """TLC validates an ndjson trace recorded from the implementation.  Accepted iff TLC finishes with
    the POSTCONDITION satisfied.  Returns (accepted, matched_prefix_len, TlcResult)."""
    r = tlc(module, cfg, tag, workers=1, env={'TRACE': trace_path}, timeout=timeout, heap=heap,
            collect_prefixes=('L;;',))
    matched = None
    for b in r.lines:
        if b.startswith('L;;'):
            try:
                matched = int(b[3:])
            except ValueError:
                pass
    if matched is None:
        matched = max(0, r.depth - 1) if r.depth else 0
    return r.ok, matched, r



def suite_flow(v, parts=('bb', 'crc')):
    """E2 with the repository's own test programs as the workload: the programs are linked with ld --wrap around the
    byte-buffer / checksum functions (harness/suite/wrap.c), run, and what they recorded is validated by TLC."""
    import glob
    lock = os.path.join(BUILD, '.lock')
    r = subprocess.run('flock %s make -s -C %s -j%d suite' % (lock, os.path.join(ROOT, 'harness'), NCPU), shell=True,
                       stdout=subprocess.PIPE, stderr=subprocess.STDOUT, text=True)
    if r.returncode != 0:
        print(r.stdout[-3000:])
        die('build of the wrapped test programs failed')
    out = outdir(v.pid)
    base = os.path.join(out, 'suite-trace')
    for suffix in ('.bb', '.crc', '.vi'):
        if os.path.exists(base + suffix):
            os.remove(base + suffix)
    progs = sorted(p for p in glob.glob(os.path.join(BUILD, 'suite', 't-*')) if not p.endswith('.d'))
    tap_ok = 0
    for p in progs:
        # (each program records into files of its own; only complete lines go on - a program that dies under the sanitizer is
        # reported as such below and must not leave half a line in front of the next program's record)
        own = base + '-' + os.path.basename(p)
        env = dict(os.environ, UFW_SUITE_TRACE=own, ASAN_OPTIONS='detect_leaks=0')
        try:
            r = subprocess.run([p], env=env, stdout=subprocess.PIPE, stderr=subprocess.STDOUT, text=True, errors='replace', timeout=1800)
        except subprocess.TimeoutExpired:
            die('test program %s did not finish' % p)
        for suffix in ('.bb', '.crc', '.vi'):
            with open(base + suffix, 'a') as dst:
                if os.path.exists(own + suffix):
                    for ln in open(own + suffix, errors='replace'):
                        try:
                            json.loads(ln)
                        except ValueError:
                            continue
                        dst.write(ln if ln.endswith('\n') else ln + '\n')
                    os.remove(own + suffix)
        bad = [ln for ln in r.stdout.split('\n') if ln.startswith('not ok')]
        tap_ok += sum(1 for ln in r.stdout.split('\n') if ln.startswith('ok'))
        if r.returncode != 0 or bad:
            v.problem('SUITE/' + os.path.basename(p), ['#suite ' + os.path.basename(p)],
                      'test program fails when linked against the recording wrappers: rc=%d %s' % (r.returncode, bad[:2]))
    specs = dict(bb=('ByteBufferSuite.tla', 'ByteBufferSuite.cfg'), crc=('Crc16Trace.tla', 'Crc16Trace.cfg'), vi=('VarintTrace.tla', 'VarintTrace.cfg'))
    counts = {}
    for part in parts:
        mod, cfg = specs[part]
        path = base + '.' + part
        counts[part] = sum(1 for ln in open(path) if '"adopt"' not in ln and '"op":"@"' not in ln and '"skipped"' not in ln)
        ok, matched, r = validate_trace(mod, cfg, path, 'suite')
        if not ok:
            ok, matched, r = validate_trace(mod, cfg, path, 'suite')
        v.add_tlc(r)
        if not ok:
            if r.rc not in (0, 12, 13) and 'ostcondition' not in (r.violation or '') and 'nvariant' not in (r.violation or '') and 'roperty' not in (r.violation or ''):
                print(r.violation or r.raw_tail)
                die('trace validation of %s failed to run (rc=%s)' % (path, r.rc))
            lines = open(path).read().split('\n')
            bad = min(matched, len(lines) - 1)
            op = json.loads(lines[bad])['op'] if lines[bad].startswith('{') else '-'
            v.problem('SUITE-TRACE/' + op, ['#trace %s %s' % (mod, cfg)] + [ln for ln in lines[max(0, bad - 1):bad + 1] if ln],
                      'specification rejects an event recorded from the repository\'s own tests: %s %s' % (lines[bad][:300], (r.violation or '').split('\n')[0]))
    skipped = sum(json.loads(ln)['a'][0] for ln in open(base + '.bb') if '"skipped"' in ln)
    v.cov['traces_validated_against_impl'] += len(progs)
    v.cov['evaluations'] += sum(counts.values())
    v.notes['suite'] = dict(programs=len(progs), tap_assertions_passing=tap_ok, recorded_calls=counts, unrecorded_calls_on_malformed_or_large_objects=skipped)
    return len(progs), tap_ok, counts, skipped

# --------------------------------------------------------------------------- findings, evidence, verdict

def known_findings(pid):
    """open: property=<id> site=<signature> <text>"""
    res = {}
    p = os.path.join(ROOT, 'KNOWN_FINDINGS.txt')
    if not os.path.exists(p):
        return res
    for l in open(p):
        l = l.strip()
        m = re.match(r'open:\s+property=(\S+)\s+site=(\S+)\s*(.*)', l)
        if m and m.group(1) == pid:
            res[m.group(2)] = m.group(3)
    return res


class Verdict:
    """Collects violations of one property run, writes replay files, evidence and the exit code."""

    def __init__(self, pid, tier):
        self.pid = pid
        self.tier = tier
        self.t0 = time.time()
        self.violations = []     # (signature, replay path, text)
        self.known_hits = {}
        self.known = known_findings(pid)
        self.cov = dict(states=0, transitions=0, traces_validated_against_impl=0, evaluations=0,
                        distinct_nontrivial=0, samples=[], rule='', exhaustive=False)
        self.assumptions = []
        self.notes = {}
        d = outdir(pid)
        for f in os.listdir(d):
            if f.startswith('replay-'):
                os.unlink(os.path.join(d, f))

    def add_tlc(self, r):
        self.cov['states'] += r.distinct
        self.cov['transitions'] += r.generated

    def problem(self, signature, script_lines, text, exe=None):
        """script_lines: the failing script (replayable through bin/check --replay)."""
        if signature in self.known:
            self.known_hits[signature] = self.known_hits.get(signature, 0) + 1
            return
        n = len(self.violations)
        if n >= 25:
            self.violations.append((signature, None, text))
            return
        path = os.path.join(outdir(self.pid), 'replay-%02d.txt' % n)
        with open(path, 'w') as f:
            f.write('#exe %s\n# %s\n' % (exe or '-', text.replace('\n', ' ')[:400]))
            f.write('\n'.join(script_lines) + '\n')
        self.violations.append((signature, path, text))

    def exec_problems(self, res, exe, sigfn=None):
        for pr in res.problems:
            sig = sigfn(pr) if sigfn else default_signature(pr)
            self.problem(sig, pr.get('script', []), '%s %s %s' % (pr['kind'], pr['tag'], pr['text']), exe)

    def finish(self, level='model_checking'):
        wall = time.time() - self.t0
        ev = dict(property_id=self.pid, tier=self.tier, seed=seed(), level=level,
                  coverage=self.cov, assumptions=self.assumptions, wall_s=round(wall, 2),
                  violations=len(self.violations))
        ev['coverage'].update(self.notes)
        if self.known_hits:
            ev['coverage']['known_findings_hit'] = self.known_hits
        # checks of behaviour beyond the listed properties (ids X..) keep their evidence out of evidence/
        evdir = os.path.join(ROOT, 'evidence') if self.pid.startswith('C') else os.path.join(OUT, 'extras')
        os.makedirs(evdir, exist_ok=True)
        with open(os.path.join(evdir, self.pid + '.json'), 'w') as f:
            json.dump(ev, f, indent=1)
        for sig, n in self.known_hits.items():
            print('KNOWN-FINDING: property=%s %s %s (%d cases)' % (self.pid, sig, self.known[sig], n))
        shown = set()
        for sig, path, text in self.violations:
            if path is None:
                continue
            print('VIOLATION property=%s replay=%s' % (self.pid, path))
            if sig not in shown:
                shown.add(sig)
                print('  [%s] %s' % (sig, text[:300]))
        print('%s %s: states=%d transitions=%d impl_traces=%d evaluations=%d violations=%d wall=%.1fs' % (
            self.pid, self.tier, self.cov['states'], self.cov['transitions'],
            self.cov['traces_validated_against_impl'], self.cov['evaluations'], len(self.violations), wall))
        sys.stdout.flush()
        sys.exit(1 if self.violations else 0)


def default_signature(pr):
    t = pr['text'].split(' ')
    return '%s/%s' % (pr['kind'], t[0] if t else '-')


def replay(path):
    """bin/check <id> --replay <path>: re-run exactly that script against the current tree."""
    build()
    exe = None
    lines = []
    trace = None
    for l in open(path):
        l = l.rstrip('\n')
        if l.startswith('#exe '):
            exe = l[5:].strip()
        elif l.startswith('#trace '):
            trace = l.split()[1:3]
        elif l.startswith('#'):
            continue
        else:
            lines.append(l)
    if not exe or exe == '-':
        die('replay file does not name an executor')
    env = dict(os.environ)
    env['ASAN_OPTIONS'] = ASAN_ENV.replace('print_summary=0', 'print_summary=1')
    p = subprocess.run([os.path.join(BUILD, exe), '-r'], input='\n'.join(lines) + '\n', text=True,
                       stdout=subprocess.PIPE, stderr=subprocess.STDOUT, env=env)
    print(p.stdout[-6000:])
    bad = any(l.startswith(('MISMATCH', 'ASAN', 'CRASH', 'HANG')) for l in p.stdout.split('\n'))
    if trace:
        tp = path + '.ndjson'
        with open(tp, 'w') as f:
            f.write('\n'.join(l for l in p.stdout.split('\n') if l.startswith('{')) + '\n')
        ok, matched, r = validate_trace(trace[0], trace[1], tp, 'replay')
        print('TLC %s the recorded trace (matched %d events)' % ('accepts' if ok else 'REJECTS', matched))
        bad = bad or not ok
    print('REPLAY: %s' % ('reproduced' if bad else 'not reproduced'))
    sys.exit(1 if bad else 0)


# --------------------------------------------------------------------------- common flows

def graph_flow(v, module, cfg, exe, tag, depth=3, budget=20000, walks=50, walklen=200, workers=None,
               nontrivial=None, env=None, heap='8g', prefix=None):
    """E0 + E1 for a transducer-like model: TLC checks the model's invariants/properties exhaustively and
    emits its transition relation; every emitted edge is then taken at least once in the real library, all
    paths up to `depth` (at most `budget`) are executed, plus seeded random walks."""
    g, r = tlc_graph(module, cfg, tag, workers=workers, env=env, heap=heap)
    v.add_tlc(r)
    rnd = random.Random(seed())
    counts = {}

    def pre(w):
        # harness-level set-up lines (no expectation) in front of a script, e.g. an address base the model abstracts from
        return (prefix(rnd, w) + w) if prefix else w

    def gen():
        n = 0
        for w in g.covering_walks():
            n += 1
            yield pre(w)
        counts['cover'] = n
        n = 0
        for w in g.all_paths(depth, budget):
            n += 1
            yield pre(w)
        counts['paths'] = n
        n = 0
        for w in g.random_walks(walks, walklen, rnd):
            n += 1
            yield pre(w)
        counts['walks'] = n

    res = run_scripts(exe, gen(), v.pid, name=tag)
    v.exec_problems(res, exe)
    if res.executed < g.nedges and not res.problems:
        die('only %d events executed for %d model edges: the emitted graph is not connected the way the walker expects' % (res.executed, g.nedges))
    v.cov['traces_validated_against_impl'] += res.nscripts
    v.cov['evaluations'] += res.checked
    nt = 0
    for u, outs in g.out.items():
        for evl, post in outs:
            if nontrivial is None or nontrivial(u, evl, post):
                nt += 1
    v.cov['distinct_nontrivial'] += nt
    v.notes.setdefault('e1', []).append(dict(model=module, cfg=cfg, model_states=r.distinct, model_edges=g.nedges,
                                             scripts=dict(counts), events_executed=res.executed,
                                             events_compared=res.checked, all_edges_taken=True,
                                             all_paths_depth=depth, paths_budget=budget))
    if len(v.cov['samples']) < 6:
        for w in g.random_walks(2, 6, random.Random(seed())):
            v.cov['samples'].append(dict(kind='E1 path (event | prescribed observation)', path=w))
    return g, r, res


def trace_flow(v, module, cfg, exe, scripts, tag, sigfn=None, flavours=0):
    """E2: execute scripts (no expectations) on the real library, record every call, let TLC validate the
    recording against the specification.  A rejection is re-run once before it is reported (R8)."""
    from concurrent.futures import ThreadPoolExecutor
    scripts = list(scripts)
    res = run_scripts(exe, scripts, v.pid, name=tag, record=True, flavours=flavours)
    v.exec_problems(res, exe)   # sanitizer reports / crashes while recording
    total_events = 0
    accepted = 0

    def val(path):
        n = sum(1 for _ in open(path))
        if n == 0:
            return path, True, 0, 0, None
        ok, matched, r = validate_trace(module, cfg, path, tag)
        if not ok:
            ok2, matched2, r2 = validate_trace(module, cfg, path, tag)
            if ok2:
                ok, matched, r = ok2, matched2, r2
        return path, ok, matched, n, r

    with ThreadPoolExecutor(max_workers=NCPU) as ex:
        results = list(ex.map(val, res.records))
    for path, ok, matched, n, r in results:
        total_events += n
        if r is not None:
            v.cov['states'] += r.distinct
            v.cov['transitions'] += r.generated
        if ok:
            accepted += 1
            continue
        if r is not None and r.rc not in (0, 12, 13) and 'ostcondition' not in (r.violation or '') and 'nvariant' not in (r.violation or ''):
            print(r.violation or r.raw_tail)
            die('trace validation of %s failed to run (rc=%s)' % (path, r.rc))
        # locate the rejected event and its script
        lines = open(path).read().split('\n')
        bad = min(matched, len(lines) - 1)
        b = bad
        while b > 0 and '"op":"@"' not in lines[b]:
            b -= 1
        script = []
        flav = 0
        for jl in lines[b:bad + 1]:
            if not jl:
                continue
            o = json.loads(jl)
            if o['op'] == '@':
                script.append('@' + o['tag'])
                flav = 0
            else:
                if o.get('flav', 0) != flav:
                    flav = o.get('flav', 0)
                    script.append('!flav %d' % flav)
                script.append(o['op'] + ' ' + ' '.join(str(x) for x in o['a']))
        rejected = lines[bad] if bad < len(lines) else ''
        inv = ''
        if r is not None and r.violation and 'nvariant' in r.violation:
            inv = ' ' + r.violation.split('\n')[0]
        sig = 'TRACE/' + (json.loads(rejected)['op'] if rejected.startswith('{') else '-')
        if sigfn and rejected.startswith('{'):
            sig = sigfn(json.loads(rejected))
        v.problem(sig, ['#trace %s %s' % (module, cfg)] + script,
                  'specification rejects recorded event %s%s' % (rejected[:300], inv), exe)
    v.cov['traces_validated_against_impl'] += len(scripts)
    v.cov['evaluations'] += total_events
    v.notes.setdefault('e2', []).append(dict(trace_spec=module, cfg=cfg, histories=len(scripts),
                                             events_validated=total_events, shards_accepted=accepted,
                                             shards=len(res.records)))
    for p in res.records[:1]:
        with open(p) as f:
            smp = [next(f, '').strip() for _ in range(4)]
        v.cov['samples'].append(dict(kind='E2 recorded events (validated by TLC)', events=[s for s in smp if s]))
    return res
