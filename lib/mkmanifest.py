"""Regenerates MANIFEST.json from the META dict of every checks/Cxx.py (run: python3 lib/mkmanifest.py)."""
import json, os, sys, importlib
ROOT = os.path.dirname(os.path.dirname(os.path.abspath(__file__)))
sys.path.insert(0, os.path.join(ROOT, 'lib'))
sys.path.insert(0, os.path.join(ROOT, 'checks'))
props = [json.loads(l) for l in open(os.path.join(ROOT, 'properties.jsonl'))]
checks, na, engines = [], [], {}
for p in props:
    pid = p['id']
    if not os.path.exists(os.path.join(ROOT, 'checks', pid + '.py')):
        na.append(dict(property_id=pid, reason='check not built yet (work in progress, see DESIGN.md section 6)'))
        continue
    m = importlib.import_module(pid)
    M = m.META
    if M.get('not_applicable'):
        na.append(dict(property_id=pid, reason=M['not_applicable']))
        continue
    c = dict(property_id=pid,
             quick_cmd='bin/check %s --tier quick' % pid,
             thorough_cmd='bin/check %s --tier thorough' % pid,
             evidence_file='evidence/%s.json' % pid,
             replay_cmd_template='bin/check %s --replay {path}' % pid,
             engine=M['engine'],
             level_claimed=dict(category='model_checking', text=M['level'], design_ref=M.get('design_ref', 'DESIGN.md section 6, ' + pid)),
             level_note=M['note'],
             technique=M['technique'])
    checks.append(c)
    engines.setdefault(M['engine'], []).append(pid)
eng = [dict(name=k, path='spec/ + harness/ + checks/', serves_properties=v,
            kind_free_text='TLA+ specification checked by TLC; behaviours replayed into / traces recorded from the real library')
       for k, v in engines.items()]
man = dict(version=1, setup_cmd='bin/setup',
           hooks=dict(guard='FT_UFW_VERIF',
                      enable='not needed: every observation is made through the public API and user-supplied callbacks; no source hooks exist',
                      baseline_off_cmd='cmake --build /repo/_build && ctest --test-dir /repo/_build -j8 --timeout 900',
                      source_commits=[], add_only=True),
           engines=eng, checks=checks,
           notes='Model-based verification with explicit TLA+ specifications (spec/*.tla): E0 TLC model checking, E1 replay of TLC-generated behaviours into the real code, E2 TLC validation of traces recorded from the real code. See DESIGN.md.',
           not_applicable=na)
json.dump(man, open(os.path.join(ROOT, 'MANIFEST.json'), 'w'), indent=1)
print('checks:', [c['property_id'] for c in checks], 'n/a:', len(na))
