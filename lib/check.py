import sys, os, importlib
sys.path.insert(0, os.path.dirname(os.path.abspath(__file__)))
sys.path.insert(0, os.path.join(os.path.dirname(os.path.abspath(__file__)), '..', 'checks'))
import vf

def main():
    a = sys.argv[1:]
    if not a:
        print('usage: bin/check <ID> --tier quick|thorough [--replay PATH]'); sys.exit(2)
    pid = a[0]
    tier = os.environ.get('VERIF_TIER', 'quick')
    rep = None
    i = 1
    while i < len(a):
        if a[i] == '--tier': tier = a[i + 1]; i += 2
        elif a[i] == '--replay': rep = a[i + 1]; i += 2
        else: i += 1
    if rep:
        vf.replay(rep)
    mod = importlib.import_module(pid)
    try:
        mod.run(tier)
    except vf.MachineryError as e:
        vf.die(str(e))

main()
