SPECIFICATION TSpec
CONSTANTS
  Octets = {0}
  HostLE = 1
INVARIANT TypeOK
POSTCONDITION Accepted
CHECK_DEADLOCK FALSE
