SPECIFICATION Spec
CONSTANTS
  OctetClasses = {0, 1, 127, 128, 255}
VIEW View
INVARIANTS TypeOK TerminatesWithinMax
CONSTRAINT EmitInit
CONSTRAINT EmitEnc
ACTION_CONSTRAINT EmitAll
CHECK_DEADLOCK FALSE
