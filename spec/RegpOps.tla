------------------------------- MODULE RegpOps -------------------------------
(* The ufw register protocol as pure operators (no variables): wire image of every frame kind, an independent
   reading of a received frame, the prescribed backend call and reply, unframing.  See Regp.tla for the
   description; Regp.tla / RegpTrace.tla (C06-C09) and RegServer.tla (protocol server on a register table)
   instantiate this module.                                                                             *)
EXTENDS Emit, CrcOps

(* ------------------------------------------------------------------ constants of the protocol *)
T_RREQ == 0
T_RRESP == 1
T_WREQ == 2
T_WRESP == 3
T_META == 15
O_WS16 == 1
O_HDCRC == 2
O_PLCRC == 4
ACK == 0
EWORDSIZE == 1
EPAYLOADCRC == 2
EPAYLOADSIZE == 3
ERXOVERFLOW == 4
ETXOVERFLOW == 5
EBUSY == 6
EUNMAPPED == 7
EACCESS == 8
ERANGE == 9
EINVALID == 10
EIO == 11
M_HEADERENC == 1
M_HEADERCRC == 2
WithAddress(code) == code \in {EUNMAPPED, EACCESS, ERANGE, EINVALID}
WithSize(code) == code \in {ERXOVERFLOW, ETXOVERFLOW}

Has(opts, bit) == (opts \div bit) % 2 = 1
W2(w) == <<w \div 256, w % 256>>                       \* 16-bit word, big endian
W4(p) == W2(p[1]) \o W2(p[2])                          \* <<hi, lo>> as four octets, big endian
Word(o, i) == o[i] * 256 + o[i + 1]                    \* octets i, i+1 (1-based) as a word

(* ------------------------------------------------------------------ emitting: doc section 2 and 5 *)
Opts(tr, ws16, hasPayload) == (IF ws16 THEN O_WS16 ELSE 0) + (IF tr = 0 THEN O_HDCRC ELSE 0)
                              + (IF tr = 0 /\ hasPayload THEN O_PLCRC ELSE 0)
Head12(type, opts, meta, sq, addr, bs) == <<meta * 16 + opts, type * 16 + 0>> \o W2(sq) \o W4(addr) \o W4(bs)
FrameOctets(type, opts, meta, sq, addr, bs, payload) ==
    LET h == Head12(type, opts, meta, sq, addr, bs)
        plc == W2(Buffer(0, payload))
        hdc == W2(Buffer(0, h \o (IF Has(opts, O_PLCRC) THEN plc ELSE <<>>)))
    IN h \o (IF Has(opts, O_HDCRC) THEN hdc ELSE <<>>) \o (IF Has(opts, O_PLCRC) THEN plc ELSE <<>>) \o payload

SlipEsc(o) == IF o = 192 THEN <<219, 220>> ELSE IF o = 219 THEN <<219, 221>> ELSE <<o>>
\* (a fold, not a recursion over Tail: frames of 64 KiB and more are part of the C08 family)
SlipBody(s) == FoldLeft(LAMBDA acc, o : acc \o SlipEsc(o), <<>>, s)
RECURSIVE VarintOf(_)
VarintOf(n) == IF n < 128 THEN <<n>> ELSE <<128 + (n % 128)>> \o VarintOf(n \div 128)
Wire(tr, frame) == IF tr = 0 THEN SlipBody(frame) \o <<192>> ELSE VarintOf(Len(frame)) \o frame

(* requests: word size 8 or 16; block size n (words); payload octets for writes *)
Request(tr, isWrite, ws16, sq, addr, n, payload) ==
    FrameOctets(IF isWrite THEN T_WREQ ELSE T_RREQ, Opts(tr, ws16, isWrite /\ payload # <<>>), 0, sq, addr, <<n \div 65536, n % 65536>>, payload)
(* responses mirror sequence and address; type = request type + 1 *)
RespType(reqType) == IF reqType = T_RREQ THEN T_RRESP ELSE IF reqType = T_WREQ THEN T_WRESP ELSE T_META
(* acknowledgement: word size of the attached memory; block size = words delivered *)
AckResponse(tr, reqType, mem16, sq, addr, n, payload) ==
    FrameOctets(RespType(reqType), Opts(tr, mem16, payload # <<>>), ACK, sq, addr, <<n \div 65536, n % 65536>>, payload)
(* error responses: octet semantics; a 32-bit big-endian payload where the document prescribes one *)
ErrResponse(tr, reqType, code, sq, addr, val) ==
    IF WithAddress(code) \/ WithSize(code)
    THEN FrameOctets(RespType(reqType), Opts(tr, FALSE, TRUE), code, sq, addr, <<0, 4>>, W4(val))
    ELSE FrameOctets(RespType(reqType), Opts(tr, FALSE, FALSE), code, sq, addr, <<0, 0>>, <<>>)
MetaMessage(tr, meta) == FrameOctets(T_META, Opts(tr, FALSE, FALSE), meta, 0, <<0, 0>>, <<0, 0>>, <<>>)

(* ------------------------------------------------------------------ receiving: an independent reading *)
Fields(o) == [meta |-> o[1] \div 16, opts |-> o[1] % 16, type |-> o[2] \div 16, version |-> o[2] % 16,
              sq |-> Word(o, 3), addr |-> <<Word(o, 5), Word(o, 7)>>, bs |-> <<Word(o, 9), Word(o, 11)>>]
HeaderLen(opts) == 12 + (IF Has(opts, O_HDCRC) THEN 2 ELSE 0) + (IF Has(opts, O_PLCRC) THEN 2 ELSE 0)
EncodingOK(o) ==
    /\ Len(o) >= 12
    /\ LET f == Fields(o)
       IN /\ f.version = 0
          /\ f.type \in {T_RREQ, T_RRESP, T_WREQ, T_WRESP, T_META}
          /\ ~Has(f.opts, 8)
          /\ CASE f.type \in {T_RREQ, T_WREQ} -> f.meta = 0
               [] f.type \in {T_RRESP, T_WRESP} -> f.meta <= EIO
               [] OTHER -> f.meta \in {M_HEADERENC, M_HEADERCRC}
          /\ Len(o) >= HeaderLen(f.opts)
HdCrcOK(o) == LET f == Fields(o)
              IN ~Has(f.opts, O_HDCRC) \/
                 Word(o, 13) = Buffer(0, Take(o, 12) \o (IF Has(f.opts, O_PLCRC) THEN SubSeq(o, 15, 16) ELSE <<>>))
PayloadOf(o) == Drop(o, HeaderLen(Fields(o).opts))
WordSize(opts) == IF Has(opts, O_WS16) THEN 2 ELSE 1
(* block size x word size = payload octets, except read requests and meta messages which carry none *)
PlSizeOK(o) == LET f == Fields(o)
                   pl == PayloadOf(o)
               IN IF f.type \in {T_RREQ, T_META} THEN pl = <<>>
                  ELSE f.bs[1] < 16384 /\ (f.bs[1] * 65536 + f.bs[2]) * WordSize(f.opts) = Len(pl)        \* (sizes the model can count: below 2^30 words)
PlCrcOK(o) == LET f == Fields(o)
              IN ~Has(f.opts, O_PLCRC) \/ Word(o, IF Has(f.opts, O_HDCRC) THEN 15 ELSE 13) = Buffer(0, PayloadOf(o))
(* verdict classes: 0 ok, 74 bad header encoding, 84 bad header checksum, 14 implausible payload size,
   71 bad payload checksum.  Where several faults apply every applicable class is allowed (R4). *)
C_OK == 0
C_ENC == 74
C_HDCRC == 84
C_PLSIZE == 14
C_PLCRC == 71
Classes(o) ==
    IF Len(o) < 12 THEN {C_ENC}
    ELSE IF ~EncodingOK(o) THEN {C_ENC} \cup (IF Len(o) >= HeaderLen(Fields(o).opts) /\ ~HdCrcOK(o) THEN {C_HDCRC} ELSE {})
    ELSE IF ~HdCrcOK(o) THEN {C_HDCRC}
    ELSE LET sz == IF PlSizeOK(o) THEN {} ELSE {C_PLSIZE}
             \* a declared payload checksum over an *empty* payload: the document says the bit shall be unset and the
             \* field zero; whether a non-zero field is then a checksum failure is left open (both readings allowed)
             crcs == IF PlCrcOK(o) THEN {{}} ELSE IF PayloadOf(o) = <<>> THEN {{}, {C_PLCRC}} ELSE {{C_PLCRC}}
         IN UNION {IF sz \cup c = {} THEN {C_OK} ELSE sz \cup c : c \in crcs}
IsRequest(o) == Fields(o).type \in {T_RREQ, T_WREQ}

(* ------------------------------------------------------------------ processing: doc section 3.1 *)
(* cfg = [tr, mem16, cap]    cap = block size of the allocator minus sizeof(RPFrame)
   The backend is the environment: for an executed request it returns a verdict code, an address, and for
   acknowledged reads the words it delivered (as octets).
   Result of receiving+processing one unframed octet string o that fits the receive block:
     [cls, backend, replies]   backend: <<>> or <<kind, addr, n, payload>>, kind 0 read 1 write
                               replies: sequence of frames (octet strings) put on the wire              *)
ReplyFor(cfg, o, cls, verdict, vaddr, data) ==
    LET f == Fields(o)
        execd == cls = C_OK /\ IsRequest(o) /\ (Has(f.opts, O_WS16) <=> cfg.mem16)
    IN IF cls = C_ENC THEN <<MetaMessage(cfg.tr, M_HEADERENC)>>
       ELSE IF cls = C_HDCRC THEN <<MetaMessage(cfg.tr, M_HEADERCRC)>>
       ELSE IF ~IsRequest(o) THEN <<>>
       ELSE IF cls = C_PLCRC THEN <<ErrResponse(cfg.tr, f.type, EPAYLOADCRC, f.sq, f.addr, <<0, 0>>)>>
       ELSE IF cls = C_PLSIZE THEN <<ErrResponse(cfg.tr, f.type, EPAYLOADSIZE, f.sq, f.addr, <<0, 0>>)>>
       ELSE IF ~execd THEN <<ErrResponse(cfg.tr, f.type, EWORDSIZE, f.sq, f.addr, <<0, 0>>)>>
       ELSE IF verdict = ACK THEN <<AckResponse(cfg.tr, f.type, cfg.mem16, f.sq, f.addr,
                                                IF f.type = T_RREQ THEN f.bs[2] ELSE 0,
                                                IF f.type = T_RREQ THEN data ELSE <<>>)>>
       ELSE <<ErrResponse(cfg.tr, f.type, verdict, f.sq, f.addr,
                          IF WithSize(verdict) THEN <<cfg.cap \div 65536, cfg.cap % 65536>> ELSE vaddr)>>
BackendCall(cfg, o, cls) ==
    LET f == Fields(o)
    IN IF cls = C_OK /\ IsRequest(o) /\ (Has(f.opts, O_WS16) <=> cfg.mem16) /\ f.bs[1] = 0
       THEN <<IF f.type = T_RREQ THEN 0 ELSE 1>> \o f.addr \o <<f.bs[2]>> \o PayloadOf(o)
       ELSE <<>>
(* read of n words: the answer is built behind the request's own header inside the receive block, so it fits exactly when
   n words are no more than the block less that header (12 octets plus two for each checksum word the request carries);
   otherwise the request is refused with transmit-overflow and memory is not touched.  (The model first allowed either
   answer within four octets of the limit; a seeded change that refused the exact fit showed that tolerance to be too wide
   for "a read whose answer cannot fit".) *)
ReadFits(cfg, o) == Fields(o).bs[1] = 0 /\ Fields(o).bs[2] * WordSize(Fields(o).opts) <= cfg.cap - HeaderLen(Fields(o).opts)
ReadTooBig(cfg, o) == ~ReadFits(cfg, o)

(* ------------------------------------------------------------------ unframing one unit from a stream *)
RECURSIVE Unslip(_, _)
Unslip(s, acc) == IF s = <<>> THEN [st |-> "eof", frame |-> acc]
                  ELSE IF s[1] = 192 THEN [st |-> "ok", frame |-> acc]
                  ELSE IF s[1] = 219
                       THEN IF Len(s) < 2 THEN [st |-> "eof", frame |-> acc]
                            ELSE IF s[2] = 220 THEN Unslip(Drop(s, 2), Append(acc, 192))
                            ELSE IF s[2] = 221 THEN Unslip(Drop(s, 2), Append(acc, 219))
                            ELSE [st |-> "ilseq", frame |-> acc]
                       ELSE Unslip(Tail(s), Append(acc, s[1]))
(* the length prefix is a varint of up to ten octets; it need not be minimal (0x80 0x80 0x80 0x80 0x00 is zero).  Groups beyond
   the fourth only matter when they are non-zero: the announced length is then 2^28 or more, which no stream of the model
   satisfies - the unit ends inside the frame, like any other announced length the stream cannot deliver (R2: no wide arithmetic) *)
RECURSIVE Unvar(_, _, _, _, _)
Unvar(s, i, acc, mul, big) ==
    IF i >= Len(s) \/ i >= 10 THEN [ok |-> FALSE, len |-> 0, used |-> i]
    ELSE LET g == s[i + 1] % 128
             acc2 == IF i < 4 THEN acc + g * mul ELSE acc
             big2 == big \/ (i >= 4 /\ g # 0)
         IN IF s[i + 1] < 128 THEN [ok |-> ~big2, len |-> acc2, used |-> i + 1]
            ELSE Unvar(s, i + 1, acc2, IF i < 3 THEN mul * 128 ELSE mul, big2)
Unframe(tr, w) == IF tr = 0 THEN Unslip(w, <<>>)
                  ELSE LET p == Unvar(w, 0, 0, 1, FALSE)
                       IN IF ~p.ok \/ Len(w) - p.used < p.len THEN [st |-> "eof", frame |-> <<>>]
                          ELSE [st |-> "ok", frame |-> SubSeq(w, p.used + 1, p.used + p.len)]

(* ------------------------------------------------------------------ the emit entry points (event "emit")
   args = <<kind, tr, mem16, seq0>> \o rest;  kind 1 read8, 2 read16 : ahi alo n
                                               kind 3 write8, 4 write16 : ahi alo n <payload octets>
                                               kind 5 acknowledgement  : reqtype seq ahi alo n <payload octets>
                                               kind 10+code error response : reqtype seq ahi alo [vhi vlo]
                                               kind 30 meta message    : meta
   observation: rc seq_after <wire> -7 <what the library's own receiver reports for it>                        *)
EmittedFrameOf(args) ==
    LET kind == args[1]
        tr == args[2]
        mem16 == args[3] = 1
        seq0 == args[4]
        rest == Drop(args, 4)
    IN CASE kind \in {1, 2} -> Request(tr, FALSE, kind = 2, seq0, <<rest[1], rest[2]>>, rest[3], <<>>)
         [] kind \in {3, 4} -> Request(tr, TRUE, kind = 4, seq0, <<rest[1], rest[2]>>, rest[3], Drop(rest, 3))
         [] kind = 5 -> AckResponse(tr, rest[1], mem16, rest[2], <<rest[3], rest[4]>>, rest[5], Drop(rest, 5))
         [] kind = 30 -> MetaMessage(tr, rest[1])
         [] OTHER -> ErrResponse(tr, rest[1], kind - 10, rest[2], <<rest[3], rest[4]>>,
                                 IF Len(rest) >= 6 THEN <<rest[5], rest[6]>> ELSE <<0, 0>>)
PeerView(o) == LET f == Fields(o)
               IN <<0, 0, f.type, f.opts, f.meta, f.sq>> \o f.addr \o f.bs \o PayloadOf(o)
EmitObs(args) == LET fr == EmittedFrameOf(args)
                 IN <<0, IF args[1] \in 1..4 THEN (args[4] + 1) % 65536 ELSE args[4]>> \o Wire(args[2], fr) \o <<-7>> \o PeerView(fr)

(* ------------------------------------------------------------------ one receive/process/free cycle *)
RECURSIVE FlatW(_, _)
FlatW(tr, fs) == IF fs = <<>> THEN <<>> ELSE Wire(tr, Head(fs)) \o FlatW(tr, Tail(fs))
(* observation: rc errid allocs frees badfree live ncalls <call> -7 <reply wire> *)
RxObs(tr, rc, errid, allocs, call, replies) ==
    <<rc, errid, allocs, allocs, 0, 0, IF call = <<>> THEN 0 ELSE 1>> \o call \o <<-7>> \o FlatW(tr, replies)

IsVoid(cfg) == "void" \in DOMAIN cfg /\ cfg.void
(* the set of observations the specification allows for this input *)
RxAllowedFor(cfg, allocFail, verdict0, vaddr, dataIn, wireIn) ==
    LET u == Unframe(cfg.tr, wireIn)
        o == u.frame
        hdr == Take(o, MinOf(Len(o), 16))
    IN IF u.st # "ok"
       THEN \* channel error: returned as an error, any block already obtained is released by the receiver
            {RxObs(cfg.tr, -1, 0, k, <<>>, <<>>) : k \in (IF o = <<>> /\ cfg.tr = 0 THEN {0} ELSE {0, 1})}
       ELSE IF o = <<>>
       THEN {RxObs(cfg.tr, 0, C_ENC, k, <<>>, <<MetaMessage(cfg.tr, M_HEADERENC)>>) : k \in {0, 1}}
       ELSE IF allocFail
       THEN \* claimed for well-formed requests only: busy response echoing sequence and address
            IF Classes(o) = {C_OK} /\ IsRequest(o)
            THEN {RxObs(cfg.tr, 0, 16, 0, <<>>, <<ErrResponse(cfg.tr, Fields(o).type, EBUSY, Fields(o).sq, Fields(o).addr, <<0, 0>>)>>)}
            ELSE IF Len(o) < 12
            THEN \* shorter than any header: there is no sequence number or address to echo - bad header encoding, as without the failure
                 {RxObs(cfg.tr, 0, id, 0, <<>>, <<MetaMessage(cfg.tr, M_HEADERENC)>>) : id \in {16, C_ENC}}
            ELSE IF Classes(o) \cap {C_ENC, C_HDCRC} # {}
            THEN \* a damaged header is a damaged header also when memory is short: its sequence number and address are not echoed
                 {RxObs(cfg.tr, 0, id, 0, <<>>, <<MetaMessage(cfg.tr, IF c = C_ENC THEN M_HEADERENC ELSE M_HEADERCRC)>>)
                    : id \in {16, C_ENC, C_HDCRC}, c \in Classes(o) \cap {C_ENC, C_HDCRC}}
            ELSE {<<-9>>}
       ELSE IF Len(o) > cfg.cap
       THEN IF cfg.cap >= 16 /\ Len(o) >= 16 /\ Classes(o) \cap {C_ENC, C_HDCRC} = {} /\ IsRequest(o)
            THEN {RxObs(cfg.tr, 0, 12, 1, <<>>, <<ErrResponse(cfg.tr, Fields(o).type, code, Fields(o).sq, Fields(o).addr, <<0, cfg.cap>>)>>)
                    : code \in {ERXOVERFLOW}}
                 \cup {RxObs(cfg.tr, 0, 12, 1, <<>>, <<FrameOctets(RespType(Fields(o).type), Opts(cfg.tr, FALSE, FALSE), ERXOVERFLOW,
                                                            Fields(o).sq, Fields(o).addr, <<0, 0>>, <<>>)>>)}
            ELSE IF cfg.cap >= 16 /\ Len(o) >= 16 /\ Classes(o) \cap {C_ENC, C_HDCRC} # {}
            THEN {RxObs(cfg.tr, 0, id, 1, <<>>, <<MetaMessage(cfg.tr, IF c = C_ENC THEN M_HEADERENC ELSE M_HEADERCRC)>>)
                    : id \in {12, C_ENC, C_HDCRC}, c \in Classes(o) \cap {C_ENC, C_HDCRC}}
            ELSE {<<-9>>}
       ELSE UNION {
              LET f == Fields(o)
                  isRead == cls = C_OK /\ Len(o) >= 12 /\ f.type = T_RREQ /\ (Has(f.opts, O_WS16) <=> cfg.mem16)
                  served == {TRUE, FALSE} \ ((IF isRead /\ ReadFits(cfg, o) THEN {FALSE} ELSE {})
                                             \cup (IF isRead /\ ReadTooBig(cfg, o) THEN {TRUE} ELSE {})
                                             \cup (IF ~isRead THEN {FALSE} ELSE {}))
              IN {LET call == IF isRead /\ ~sv THEN <<>> ELSE IF Len(o) >= 12 /\ ~IsVoid(cfg) THEN BackendCall(cfg, o, cls) ELSE <<>>
                      \* an instance nobody attached memory to answers every executable request "unmapped" at the request's address (extra X09)
                      verdict == IF isRead /\ ~sv THEN ETXOVERFLOW ELSE IF IsVoid(cfg) THEN EUNMAPPED ELSE verdict0
                      va == IF IsVoid(cfg) /\ Len(o) >= 12 THEN f.addr ELSE vaddr
                      data == IF isRead /\ sv /\ verdict = ACK THEN Take(dataIn \o Fill(8192, 225), f.bs[2] * WordSize(f.opts)) ELSE <<>>
                      replies == IF Len(o) < 12 THEN <<MetaMessage(cfg.tr, M_HEADERENC)>> ELSE ReplyFor(cfg, o, cls, verdict, va, data)
                  IN RxObs(cfg.tr, 0, cls, 1, call, replies) : sv \in served}
              : cls \in Classes(o)}

=============================================================================
