SPECIFICATION TSpec
CONSTANTS
  MaxSize = 3
  Alphabet = {1, 2}
INVARIANT BoundsInv
PROPERTIES RefusedUnchanged AddAppends AddFailsIffNoSpace ConsumeOldestInOrder ConsumeFailsIffTooFew
  AtMostReturnsWhatIsThere RewindKeepsUnread EmptyingOps SetRefusesMalformed
POSTCONDITION Accepted
CHECK_DEADLOCK FALSE
