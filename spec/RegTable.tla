------------------------------ MODULE RegTable ------------------------------
(* ufw register table (src/registers/core.c), properties C01-C05.

   A table description  d = [be, areas, regs]:
     areas[i] = [base, size, rd, wr, skip, hasw]   rd/wr: READABLE/WRITEABLE flag, skip: SKIP_DEFAULTS,
                                                   hasw: the area has a write callback (0/1)
     regs[j]  = [ty, addr, ck, lo, hi, def]        ty 0..7 = u16 u32 u64 s16 s32 s64 f32 f64
                                                   ck 0 none, 1 always-fail, 2 min(lo), 3 max(hi),
                                                      4 range(lo,hi), 5 callback
   Values are sequences of 16-bit words, MOST significant first, of the type's size (1, 2 or 4): TLC's
   integers are 32 bit (R2).  Handles and area indices are 0-based as in C; TLA+ sequences 1-based.

   The storage is the flat word address space: mem[i] = words of area i, each word being the value of the
   atom read in the table's byte order (the adapter projects it that way), so that a register at address a
   occupies a..a+size-1 with the least significant word first (little-endian table) or the most significant
   word first (big-endian table).

   The callback validator used everywhere (harness and model): the value's least significant word is not 1. *)
EXTENDS Emit, Bitwise, SequencesExt, FiniteSets

VARIABLES d, inited, mem, touched, ev
vars == <<d, inited, mem, touched>>

---------------------------------------------------------------------------
(* codes *)
OK == 0
REFUSED == 1        \* any other failure class where the property names none
UNINIT == 2
NOENTRY == 3
RANGE == 4
INVALID == 5
READONLY == 6
I_OK == 0
I_NO_AREAS == 2
I_AREA_ORDER == 4
I_AREA_OVERLAP == 5
I_ENTRY_ORDER == 7
I_ENTRY_OVERLAP == 8
I_HOLE == 9
I_DEFAULT == 10

Size(ty) == <<1, 2, 4, 1, 2, 4, 2, 4>>[ty + 1]
IsUnsigned(ty) == ty \in {0, 1, 2}
IsSigned(ty) == ty \in {3, 4, 5}
IsFloat(ty) == ty \in {6, 7}

---------------------------------------------------------------------------
(* order on values, from the bit patterns *)
RECURSIVE LexLE(_, _)
LexLE(a, b) == IF a = <<>> THEN TRUE
               ELSE IF a[1] < b[1] THEN TRUE ELSE IF a[1] > b[1] THEN FALSE ELSE LexLE(Tail(a), Tail(b))
AllZero(s) == \A i \in 1..Len(s) : s[i] = 0
Neg(v) == v[1] >= 32768
Mag(v) == <<v[1] % 32768>> \o Tail(v)
SKey(v) == <<(v[1] + 32768) % 65536>> \o Tail(v)          \* two's complement -> unsigned order
FloatLE(a, b) == IF AllZero(Mag(a)) /\ AllZero(Mag(b)) THEN TRUE          \* -0 = +0
                 ELSE IF Neg(a) /\ ~Neg(b) THEN TRUE
                 ELSE IF ~Neg(a) /\ Neg(b) THEN FALSE
                 ELSE IF ~Neg(a) THEN LexLE(Mag(a), Mag(b)) ELSE LexLE(Mag(b), Mag(a))
LE(ty, a, b) == IF IsUnsigned(ty) THEN LexLE(a, b) ELSE IF IsSigned(ty) THEN LexLE(SKey(a), SKey(b)) ELSE FloatLE(a, b)

(* IEEE-754 classes from the bit pattern: a float is storable iff it is zero or normal *)
FExp(ty, v) == IF ty = 6 THEN (v[1] \div 128) % 256 ELSE (v[1] \div 16) % 2048
FMantZero(ty, v) == IF ty = 6 THEN v[1] % 128 = 0 /\ v[2] = 0 ELSE v[1] % 16 = 0 /\ v[2] = 0 /\ v[3] = 0 /\ v[4] = 0
FExpMax(ty) == IF ty = 6 THEN 255 ELSE 2047
FloatStorable(ty, v) == (FExp(ty, v) = 0 /\ FMantZero(ty, v)) \/ (FExp(ty, v) \in 1..FExpMax(ty) - 1)
Decodes(ty, v) == ~IsFloat(ty) \/ FloatStorable(ty, v)

CallbackOK(v) == v[Len(v)] # 1
(* constraint of register r on value v (of r's type); during initialisation always-fail accepts *)
Satisfies(r, v, duringInit) ==
    CASE r.ck = 0 -> TRUE
      [] r.ck = 1 -> duringInit
      [] r.ck = 2 -> LE(r.ty, r.lo, v)
      [] r.ck = 3 -> LE(r.ty, v, r.hi)
      [] r.ck = 4 -> LE(r.ty, r.lo, v) /\ LE(r.ty, v, r.hi)
      [] OTHER -> CallbackOK(v)

---------------------------------------------------------------------------
(* layout *)
NA(t) == Len(t.areas)
NR(t) == Len(t.regs)
AEnd(a) == a.base + a.size                                      \* exclusive
AreaOf(t, addr) == LET S == {i \in 1..NA(t) : t.areas[i].base <= addr /\ addr < AEnd(t.areas[i])}
                   IN IF S = {} THEN 0 ELSE CHOOSE i \in S : \A j \in S : i <= j
Mapped(t, addr) == AreaOf(t, addr) # 0
REnd(r) == r.addr + Size(r.ty)                                   \* exclusive
RegArea(t, r) == AreaOf(t, r.addr)
Fits(t, r) == RegArea(t, r) # 0 /\ REnd(r) <= AEnd(t.areas[RegArea(t, r)])
LoadsDefaults(a) == a.hasw = 1 /\ a.skip = 0
DefaultOK(r) == Satisfies(r, r.def, TRUE) /\ Decodes(r.ty, r.def)

WordAt(t, m, addr) == LET i == AreaOf(t, addr) IN m[i][addr - t.areas[i].base + 1]
SetWord(t, m, addr, w) == LET i == AreaOf(t, addr) IN [m EXCEPT ![i][addr - t.areas[i].base + 1] = w]
RECURSIVE SetWords(_, _, _, _)
SetWords(t, m, addr, ws) == IF ws = <<>> THEN m ELSE SetWords(t, SetWord(t, m, addr, Head(ws)), addr + 1, Tail(ws))
InOrder(t, v) == IF t.be = 1 THEN v ELSE Reverse(v)              \* value (MS first) <-> words at ascending addresses
RegWords(t, m, r) == [k \in 1..Size(r.ty) |-> WordAt(t, m, r.addr + k - 1)]
RegValue(t, m, r) == InOrder(t, RegWords(t, m, r))
StoreReg(t, m, r, v) == SetWords(t, m, r.addr, InOrder(t, v))

---------------------------------------------------------------------------
(* C04: initialisation.  Result: set of allowed <<code, index>> (R4: within a stage "first" may be read
   index-major, as coded, or rule-major) *)
MinOfSet(S) == CHOOSE x \in S : \A y \in S : x <= y
AreaOrderBad(t) == {i \in 2..NA(t) : t.areas[i].base < t.areas[i - 1].base}
AreaOverlapBad(t) == {i \in 2..NA(t) : t.areas[i].base >= t.areas[i - 1].base /\ t.areas[i].base < AEnd(t.areas[i - 1])}
RegOrderBad(t) == {j \in 2..NR(t) : t.regs[j].addr < t.regs[j - 1].addr}
RegOverlapBad(t) == {j \in 2..NR(t) : t.regs[j].addr >= t.regs[j - 1].addr /\ t.regs[j].addr < REnd(t.regs[j - 1])}
HoleBad(t) == {j \in 1..NR(t) : ~Fits(t, t.regs[j])}
DefaultBad(t) == {j \in 1..NR(t) : Fits(t, t.regs[j]) /\ LoadsDefaults(t.areas[RegArea(t, t.regs[j])]) /\ ~DefaultOK(t.regs[j])}
Stage(A, ca, B, cb) ==    \* two rules of one stage; C indices
    LET U == A \cup B
        m == MinOfSet(U)
        indexMajor == IF m \in A THEN <<ca, m - 1>> ELSE <<cb, m - 1>>
        ruleMajor == IF A # {} THEN <<ca, MinOfSet(A) - 1>> ELSE <<cb, MinOfSet(B) - 1>>
    IN {indexMajor, ruleMajor}
InitAllowed(t) ==
    IF NA(t) = 0 THEN {<<I_NO_AREAS, 0>>}
    ELSE IF AreaOrderBad(t) \cup AreaOverlapBad(t) # {} THEN Stage(AreaOrderBad(t), I_AREA_ORDER, AreaOverlapBad(t), I_AREA_OVERLAP)
    ELSE IF RegOrderBad(t) \cup RegOverlapBad(t) # {} THEN Stage(RegOrderBad(t), I_ENTRY_ORDER, RegOverlapBad(t), I_ENTRY_OVERLAP)
    ELSE IF HoleBad(t) \cup DefaultBad(t) # {} THEN Stage(HoleBad(t), I_HOLE, DefaultBad(t), I_DEFAULT)
    ELSE {<<I_OK, 0>>}
(* the statement, declaratively *)
WellFormed(t) == /\ NA(t) >= 1
                 /\ \A i \in 2..NA(t) : t.areas[i].base >= AEnd(t.areas[i - 1])
                 /\ \A j \in 2..NR(t) : t.regs[j].addr >= REnd(t.regs[j - 1])
                 /\ \A j \in 1..NR(t) : Fits(t, t.regs[j])
                 /\ \A j \in 1..NR(t) : LoadsDefaults(t.areas[RegArea(t, t.regs[j])]) => DefaultOK(t.regs[j])
ZeroMem(t) == [i \in 1..NA(t) |-> Fill(t.areas[i].size, 0)]
RECURSIVE LoadDefaults(_, _, _)
LoadDefaults(t, m, j) == IF j > NR(t) THEN m
                         ELSE LET r == t.regs[j]
                              IN LoadDefaults(t, IF LoadsDefaults(t.areas[RegArea(t, r)]) THEN StoreReg(t, m, r, r.def) ELSE m, j + 1)
InitMem(t) == LoadDefaults(t, ZeroMem(t), 1)
(* per area: first, last, count of the registers located in it (0 0 0 when empty) *)
AreaRegs(t, i) == {j \in 1..NR(t) : RegArea(t, t.regs[j]) = i}
AreaLinks(t) == [i \in 1..NA(t) |-> LET S == AreaRegs(t, i)
                                    IN IF S = {} THEN <<0, 0, 0>>
                                       ELSE <<MinOfSet(S) - 1, (CHOOSE x \in S : \A y \in S : y <= x) - 1, Cardinality(S)>>]

---------------------------------------------------------------------------
(* C01: typed access.  h is the C handle (0-based) *)
ValidH(t, h) == h >= 0 /\ h < NR(t)
SetResult(t, m, h, ty, v, checked) ==
    \* <<code, mem'>>
    IF ~ValidH(t, h) THEN <<NOENTRY, m>>
    ELSE LET r == t.regs[h + 1]
             a == t.areas[RegArea(t, r)]
         IN IF checked /\ (ty # r.ty \/ ~Satisfies(r, v, FALSE)) THEN <<REFUSED, m>>
            ELSE IF a.hasw = 0 THEN <<REFUSED, m>>
            ELSE IF ~Decodes(r.ty, v) THEN <<REFUSED, m>>
            ELSE <<OK, StoreReg(t, m, r, v)>>
GetResult(t, m, h) ==
    \* <<code, ty, value>>
    IF ~ValidH(t, h) THEN <<NOENTRY>>
    ELSE LET r == t.regs[h + 1]
             v == RegValue(t, m, r)
         IN IF Decodes(r.ty, v) THEN <<OK, r.ty>> \o v ELSE <<REFUSED>>
WOr(a, b) == [i \in 1..Len(a) |-> a[i] | b[i]]
WAndNot(a, b) == [i \in 1..Len(a) |-> a[i] & (65535 - b[i])]
BitResult(t, m, h, ty, v, isSet) ==
    IF ~ValidH(t, h) THEN <<NOENTRY, m>>
    ELSE LET r == t.regs[h + 1]
             cur == RegValue(t, m, r)
         IN IF ~Decodes(r.ty, cur) THEN <<REFUSED, m>>
            ELSE IF ty # r.ty \/ ~IsUnsigned(r.ty) THEN <<REFUSED, m>>
            ELSE SetResult(t, m, h, ty, IF isSet THEN WOr(cur, v) ELSE WAndNot(cur, v), TRUE)

---------------------------------------------------------------------------
(* C02: block write.  Allowed results: {<<OK, 0>>} or the applicable <<class, first address>> pairs *)
Span(addr, n) == addr..addr + n - 1
Unmapped(t, addr, n) == {x \in Span(addr, n) : ~Mapped(t, x)}
TouchedAreas(t, addr, n) == {i \in 1..NA(t) : \E x \in Span(addr, n) : AreaOf(t, x) = i}
Writable(a) == a.hasw = 1 /\ a.wr = 1
ROAreas(t, addr, n) == {i \in TouchedAreas(t, addr, n) : ~Writable(t.areas[i])}
Overlapped(t, addr, n) == {j \in 1..NR(t) : t.regs[j].addr < addr + n /\ addr < REnd(t.regs[j])}
(* the register's words after overlaying exactly the block's words that fall on it *)
OverlayWords(t, m, r, addr, ws) ==
    [k \in 1..Size(r.ty) |-> LET x == r.addr + k - 1
                             IN IF x >= addr /\ x < addr + Len(ws) THEN ws[x - addr + 1] ELSE WordAt(t, m, x)]
NewValue(t, m, r, addr, ws) == InOrder(t, OverlayWords(t, m, r, addr, ws))
Undecodable(t, m, addr, ws) == {j \in Overlapped(t, addr, Len(ws)) : ~Decodes(t.regs[j].ty, NewValue(t, m, t.regs[j], addr, ws))}
OutOfRange(t, m, addr, ws) == {j \in Overlapped(t, addr, Len(ws)) :
                                 /\ Decodes(t.regs[j].ty, NewValue(t, m, t.regs[j], addr, ws))
                                 /\ ~Satisfies(t.regs[j], NewValue(t, m, t.regs[j], addr, ws), FALSE)}
FirstIn(addr, x) == IF x > addr THEN x ELSE addr
BWAllowed(t, m, addr, ws) ==
    LET n == Len(ws)
        un == Unmapped(t, addr, n)
        ro == ROAreas(t, addr, n)
        inv == Undecodable(t, m, addr, ws)
        oor == OutOfRange(t, m, addr, ws)
        fails == (IF un # {} THEN {<<NOENTRY, MinOfSet(un)>>} ELSE {})
                 \cup (IF ro # {} THEN {<<READONLY, FirstIn(addr, t.areas[MinOfSet(ro)].base)>>} ELSE {})
                 \cup (IF inv # {} THEN {<<INVALID, FirstIn(addr, t.regs[MinOfSet(inv)].addr)>>} ELSE {})
                 \cup (IF oor # {} THEN {<<RANGE, FirstIn(addr, t.regs[MinOfSet(oor)].addr)>>} ELSE {})
    IN IF n = 0 \/ fails = {} THEN {<<OK, 0>>} ELSE fails
BWMem(t, m, addr, ws) == SetWords(t, m, addr, ws)

(* C03: block read and iteration *)
Readable(a) == a.rd = 1 /\ a.kind # 3          \* kind 3: an area without a read function reads as zero whatever its flag says
BRResult(t, m, addr, n) ==
    LET un == Unmapped(t, addr, n)
    IN IF n > 0 /\ un # {} THEN <<NOENTRY, MinOfSet(un)>>
       ELSE <<OK, 0>> \o [k \in 1..n |-> IF Readable(t.areas[AreaOf(t, addr + k - 1)]) THEN WordAt(t, m, addr + k - 1) ELSE 0]
(* callback script: the k-th call returns script[k] (0 beyond its end) *)
ScriptAt(s, k) == IF k <= Len(s) THEN s[k] ELSE 0
RECURSIVE Visit(_, _, _, _)
Visit(t, hs, script, k) ==   \* hs: handles (1-based) still to visit; returns <<code, addr, visited handles (C)>>
    IF hs = <<>> THEN <<OK, 0>>
    ELSE LET ret == ScriptAt(script, k)
             h == Head(hs)
         IN IF ret = 0 THEN LET rest == Visit(t, Tail(hs), script, k + 1) IN <<rest[1], rest[2], h - 1>> \o Drop(rest, 2)
            ELSE IF ret < 0 THEN <<REFUSED, t.regs[h].addr, h - 1>>
            ELSE <<OK, 0, h - 1>>
FEResult(t, addr, off, script) ==
    LET hs == SetToSortSeq(Overlapped(t, addr, off), LAMBDA x, y : x < y)
    IN IF off = 0 THEN <<OK, 0>> ELSE Visit(t, hs, script, 1)

(* C05: sanitise *)
RECURSIVE SanitiseFrom(_, _, _)
SanitiseFrom(t, m, j) ==
    IF j > NR(t) THEN m
    ELSE LET r == t.regs[j]
             v == RegValue(t, m, r)
             bad == ~Decodes(r.ty, v) \/ ~Satisfies(r, v, FALSE)
         IN SanitiseFrom(t, IF bad THEN StoreReg(t, m, r, r.def) ELSE m, j + 1)

---------------------------------------------------------------------------
(* observations (harness/regtab.c): memory image = all words of all areas in order; touched = 0/1 per register *)
RECURSIVE FlatSeq(_)
FlatSeq(ss) == IF ss = <<>> THEN <<>> ELSE Head(ss) \o FlatSeq(Tail(ss))
Image(m) == FlatSeq(m)
TouchVec(t, T) == [j \in 1..NR(t) |-> IF j \in T THEN 1 ELSE 0]
Pad4(v) == Fill(4 - Len(v), 0) \o v

(* a description as flat argument list of the tinit event, and back *)
LastN(s, n) == SubSeq(s, Len(s) - n + 1, Len(s))
FlatArea(a) == <<a.base, a.size, a.rd, a.wr, a.skip, a.hasw, a.kind>>
FlatReg(r) == <<r.ty, r.addr, r.ck>> \o Pad4(r.lo) \o Pad4(r.hi) \o Pad4(r.def)
Flatten(t) == <<t.be, NA(t)>> \o FlatSeq([i \in 1..NA(t) |-> FlatArea(t.areas[i])])
              \o <<NR(t)>> \o FlatSeq([j \in 1..NR(t) |-> FlatReg(t.regs[j])])
Unflatten(a) ==
    LET na == a[2]
        nr == a[3 + 7 * na]
        ar(i) == LET o == 2 + 7 * (i - 1)
                 IN [base |-> a[o + 1], size |-> a[o + 2], rd |-> a[o + 3], wr |-> a[o + 4], skip |-> a[o + 5], hasw |-> a[o + 6], kind |-> a[o + 7]]
        rg(j) == LET o == 3 + 7 * na + 15 * (j - 1)
                     sz == Size(a[o + 1])
                 IN [ty |-> a[o + 1], addr |-> a[o + 2], ck |-> a[o + 3],
                     lo |-> LastN(SubSeq(a, o + 4, o + 7), sz), hi |-> LastN(SubSeq(a, o + 8, o + 11), sz),
                     def |-> LastN(SubSeq(a, o + 12, o + 15), sz)]
    IN [be |-> a[1], areas |-> [i \in 1..na |-> ar(i)], regs |-> [j \in 1..nr |-> rg(j)]]

Init == d = <<>> /\ inited = FALSE /\ mem = <<>> /\ touched = {} /\ ev = Boot

(* tinit: the environment supplies a description; alts = allowed observations *)
TInit(t) ==
    LET allowed == InitAllowed(t)
        okobs == <<I_OK, 0>> \o FlatSeq(AreaLinks(t)) \o <<-7>> \o Image(InitMem(t))
    IN /\ d' = t /\ touched' = {}
       /\ IF allowed = {<<I_OK, 0>>}
          THEN inited' = TRUE /\ mem' = InitMem(t) /\ ev' = [op |-> "tinit", a |-> Flatten(t), o |-> okobs, alts |-> {okobs}]
          ELSE inited' = FALSE /\ mem' = ZeroMem(t) /\ ev' = [op |-> "tinit", a |-> Flatten(t), o |-> CHOOSE x \in allowed : TRUE, alts |-> allowed]

Uninit(op, args) == ~inited /\ UNCHANGED vars /\ ev' = [op |-> op, a |-> args, o |-> <<UNINIT>>, alts |-> {<<UNINIT>>}]
One(op, args, o) == ev' = [op |-> op, a |-> args, o |-> o, alts |-> {o}]

Set(h, ty, v, unsafe) ==
    \/ Uninit("set", <<h, unsafe, ty>> \o Pad4(v))
    \/ /\ inited
       /\ LET r == SetResult(d, mem, h, ty, v, unsafe = 0)
          IN mem' = r[2] /\ UNCHANGED <<d, inited, touched>> /\ One("set", <<h, unsafe, ty>> \o Pad4(v), <<r[1]>> \o Image(r[2]))
(* all 65536 values of a 16-bit register through set (ascending) followed by get: the accept set as maximal
   intervals, and the number of values for which storage/read-back was not exact (adapter-side, must be 0) *)
SetVerdict(t, m, h, ty, v, checked) ==      \* the code of SetResult without building the new storage
    IF ~ValidH(t, h) THEN NOENTRY
    ELSE LET r == t.regs[h + 1]
         IN IF checked /\ (ty # r.ty \/ ~Satisfies(r, v, FALSE)) THEN REFUSED
            ELSE IF t.areas[RegArea(t, r)].hasw = 0 THEN REFUSED
            ELSE IF ~Decodes(r.ty, v) THEN REFUSED ELSE OK
(* maximal intervals of accepted values, by one linear scan 0..65535: acc = [open, start, out] *)
ScanStep(t, m, h, unsafe, acc, x) ==
    LET ok == SetVerdict(t, m, h, t.regs[h + 1].ty, <<x>>, unsafe = 0) = OK
    IN IF ok THEN (IF acc.open THEN acc ELSE [acc EXCEPT !.open = TRUE, !.start = x])
       ELSE (IF acc.open THEN [open |-> FALSE, start |-> 0, out |-> acc.out \o <<acc.start, x - 1>>] ELSE acc)
Intervals16(t, m, h, unsafe) ==
    LET r == FoldLeft(LAMBDA acc, x : ScanStep(t, m, h, unsafe, acc, x), [open |-> FALSE, start |-> 0, out |-> <<>>],
                      [i \in 1..65536 |-> i - 1])
    IN IF r.open THEN r.out \o <<r.start, 65535>> ELSE r.out
Sweep16With(h, unsafe, iv) ==
    /\ mem' = IF iv = <<>> THEN mem ELSE StoreReg(d, mem, d.regs[h + 1], <<iv[Len(iv)]>>)
    /\ UNCHANGED <<d, inited, touched>>
    /\ One("sweep16", <<h, unsafe>>, <<Len(iv) \div 2>> \o iv \o <<0>>)
Sweep16(h, unsafe) ==
    /\ inited /\ ValidH(d, h) /\ Size(d.regs[h + 1].ty) = 1
    /\ Sweep16With(h, unsafe, Intervals16(d, mem, h, unsafe))
Get(h) ==
    \/ Uninit("get", <<h>>)
    \/ inited /\ UNCHANGED vars /\ One("get", <<h>>, GetResult(d, mem, h))
Bit(h, ty, v, isSet) ==
    \/ Uninit(IF isSet THEN "bitset" ELSE "bitclr", <<h, ty>> \o Pad4(v))
    \/ /\ inited
       /\ LET r == BitResult(d, mem, h, ty, v, isSet)
          IN mem' = r[2] /\ UNCHANGED <<d, inited, touched>>
             /\ One(IF isSet THEN "bitset" ELSE "bitclr", <<h, ty>> \o Pad4(v), <<r[1]>> \o Image(r[2]))
BlockWrite(addr, ws) ==
    \/ Uninit("bwrite", <<addr, Len(ws)>> \o ws)
    \/ /\ inited
       /\ LET allowed == BWAllowed(d, mem, addr, ws)
              success == allowed = {<<OK, 0>>}
              m2 == IF success /\ ws # <<>> THEN BWMem(d, mem, addr, ws) ELSE mem
              T2 == IF success /\ ws # <<>> THEN touched \cup Overlapped(d, addr, Len(ws)) ELSE touched
              obsOf(x) == <<x[1], x[2]>> \o Image(m2) \o <<-7>> \o TouchVec(d, T2)
          IN /\ mem' = m2 /\ touched' = T2 /\ UNCHANGED <<d, inited>>
             /\ ev' = [op |-> "bwrite", a |-> <<addr, Len(ws)>> \o ws, o |-> obsOf(CHOOSE x \in allowed : TRUE),
                       alts |-> {obsOf(x) : x \in allowed}]
BlockRead(addr, n) ==
    \/ Uninit("bread", <<addr, n>>)
    \/ inited /\ UNCHANGED vars /\ One("bread", <<addr, n>>, BRResult(d, mem, addr, n))
Foreach(addr, off, script) ==
    \/ Uninit("foreach", <<addr, off, Len(script)>> \o script)
    \/ inited /\ UNCHANGED vars /\ One("foreach", <<addr, off, Len(script)>> \o script, FEResult(d, addr, off, script))
Sanitise ==
    \/ Uninit("sanitise", <<>>)
    \/ /\ inited /\ mem' = SanitiseFrom(d, mem, 1) /\ touched' = {} /\ UNCHANGED <<d, inited>>
       /\ One("sanitise", <<>>, <<OK>> \o Image(mem') \o <<-7>> \o TouchVec(d, {}))
(* ------------------------------------------------------------------ behaviour beyond C01-C05 (bin/extras, X02) *)
Default(h) ==
    \/ Uninit("default", <<h>>)
    \/ inited /\ UNCHANGED vars
       /\ One("default", <<h>>, IF ValidH(d, h) THEN <<OK, d.regs[h + 1].ty>> \o d.regs[h + 1].def ELSE <<NOENTRY>>)
(* equality of the values of two registers: same type and same number (-0 = +0 for floats) *)
ValEq(ty, a, b) == IF IsFloat(ty) THEN FloatLE(a, b) /\ FloatLE(b, a) ELSE a = b
Compare(h1, h2) ==
    \/ Uninit("compare", <<h1, h2>>)
    \/ inited /\ UNCHANGED vars
       /\ LET g1 == GetResult(d, mem, h1)
              g2 == GetResult(d, mem, h2)
          IN One("compare", <<h1, h2>>,
                 IF g1[1] # OK THEN <<g1[1]>> ELSE IF g2[1] # OK THEN <<g2[1]>>
                 ELSE IF g1[2] = g2[2] /\ ValEq(g1[2], Drop(g1, 2), Drop(g2, 2)) THEN <<OK>> ELSE <<REFUSED>>)
(* unchecked copy of the leading words of area src over area dst (0-based area indices; both must not be
   callback-backed at the same time) *)
MCopy(dst, src) ==
    /\ inited /\ dst \in 0..NA(d) - 1 /\ src \in 0..NA(d) - 1
    /\ LET da == d.areas[dst + 1]
           sa == d.areas[src + 1]
           n == MinOf(da.size, sa.size)
       IN IF da.kind = 1 /\ sa.kind = 1
          THEN UNCHANGED vars /\ One("mcopy", <<dst, src>>, <<REFUSED>> \o Image(mem))
          ELSE /\ mem' = [mem EXCEPT ![dst + 1] = SubSeq(mem[src + 1], 1, n) \o Drop(mem[dst + 1], n)]
               /\ UNCHANGED <<d, inited, touched>>
               /\ One("mcopy", <<dst, src>>, <<OK>> \o Image(mem'))
(* user initialisation: the callback is called for the registers in order until it reports a negative value *)
UserInit(script) ==
    \/ Uninit("userinit", <<Len(script)>> \o script)
    \/ inited /\ UNCHANGED vars
       /\ LET neg == {k \in 1..NR(d) : ScriptAt(script, k) < 0}
              stop == IF neg = {} THEN NR(d) ELSE MinOfSet(neg)
          IN One("userinit", <<Len(script)>> \o script,
                 (IF neg = {} THEN <<OK, 0>> ELSE <<REFUSED, d.regs[stop].addr>>) \o [k \in 1..stop |-> k - 1])
(* hexadecimal text written as raw 16-bit atoms from address start on, four digits per atom (a shorter last
   group is the low digits); not atomic: atoms in front of the first problem stay written.  The atoms are
   written in host representation, so a big-endian table sees them octet-swapped. *)
HexDigitVal(c) == IF c \in 48..57 THEN c - 48 ELSE IF c \in 97..102 THEN c - 87 ELSE IF c \in 65..70 THEN c - 55 ELSE -1
RECURSIVE HexAtom(_, _)
HexAtom(cs, acc) == IF cs = <<>> THEN acc ELSE HexAtom(Tail(cs), acc * 16 + HexDigitVal(Head(cs)))
Swap16(w) == (w % 256) * 256 + (w \div 256)
RECURSIVE HexStore(_, _, _)
HexStore(m, addr, cs) ==      \* <<code, addr, mem>>
    IF cs = <<>> THEN <<OK, 0, m>>
    ELSE LET grp == Take(cs, MinOf(4, Len(cs)))
             ar == AreaOf(d, addr)
         IN IF ar = 0 THEN <<NOENTRY, addr, m>>
            ELSE IF d.areas[ar].hasw = 0 THEN <<READONLY, addr, m>>
            ELSE IF \E k \in 1..Len(grp) : HexDigitVal(grp[k]) < 0 THEN <<INVALID, addr, m>>
            ELSE LET v == HexAtom(grp, 0)
                 IN HexStore(SetWord(d, m, addr, IF d.be = 1 THEN Swap16(v) ELSE v), addr + 1, Drop(cs, Len(grp)))
HexStr(start, cs) ==
    /\ inited
    /\ LET r == HexStore(mem, start, cs)
       IN /\ mem' = r[3] /\ UNCHANGED <<d, inited, touched>>
          /\ One("hexstr", <<start, Len(cs)>> \o cs, <<r[1], r[2]>> \o Image(r[3]))

(* composition X04: an area whose storage is a checksummed persistent-storage instance (area kind 2). The table
   semantics are unchanged; whatever the table did, a fresh persistent instance on the medium validates, no medium
   access left the medium and the guard octets around the region are intact *)
PValidate == UNCHANGED vars /\ One("pvalidate", <<>>, <<0, 0, 0>>)

(* environment: out-of-band alteration of one mapped word *)
Corrupt(addr, w) == /\ inited /\ Mapped(d, addr) /\ mem' = SetWord(d, mem, addr, w) /\ UNCHANGED <<d, inited, touched>>
                    /\ One("corrupt", <<addr, w>>, <<OK>> \o Image(mem'))

---------------------------------------------------------------------------
(* invariants and action properties (E0) *)
\* (registers of areas that do not load defaults start from whatever the storage holds; the invariant is
\*  claimed for the registers whose initial value initialisation established)
ConstrainedOK(t, m) == \A j \in 1..NR(t) :
    t.regs[j].ck \in {2, 3, 4, 5} /\ LoadsDefaults(t.areas[RegArea(t, t.regs[j])]) => LET v == RegValue(t, m, t.regs[j]) IN Decodes(t.regs[j].ty, v) /\ Satisfies(t.regs[j], v, FALSE)
rc(e) == e.o[1]
CheckedOp(e) == e.op \in {"set", "bitset", "bitclr", "bwrite", "sanitise"}
RefusedUnchanged == [][CheckedOp(ev') /\ ev'.op # "sanitise" /\ rc(ev') # OK => mem' = mem /\ touched' = touched]_<<vars, ev>>
InitAcceptsIffWellFormed == [][ev'.op = "tinit" => (inited' <=> WellFormed(d'))]_<<vars, ev>>
SanitiseRestores == [][ev'.op = "sanitise" /\ inited =>
                          /\ touched' = {}
                          /\ (\A j \in 1..NR(d) : d.regs[j].ck # 1 =>
                                LET v == RegValue(d, mem, d.regs[j])
                                    good == Decodes(d.regs[j].ty, v) /\ Satisfies(d.regs[j], v, FALSE)
                                IN RegValue(d, mem', d.regs[j]) = IF good THEN v ELSE d.regs[j].def)]_<<vars, ev>>
SetGetRoundTrip == [][ev'.op = "set" /\ inited /\ rc(ev') = OK =>
                         LET h == ev'.a[1] IN GetResult(d, mem', h) = <<OK, d.regs[h + 1].ty>> \o SubSeq(ev'.a, 8 - Size(d.regs[h + 1].ty), 7)]_<<vars, ev>>
BWAllOrNothing == [][ev'.op = "bwrite" /\ inited =>
                        IF rc(ev') = OK
                        THEN \A x \in DOMAIN Image(mem) : TRUE
                        ELSE mem' = mem]_<<vars, ev>>
=============================================================================
