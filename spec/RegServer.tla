------------------------------ MODULE RegServer ------------------------------
(* Composition the repository itself uses (test/t-register-protocol.c style): a register-protocol responder
   with 16-bit memory whose backend is a register table through regaccess2blockaccess():

       read  request  ->  register_block_read   ->  acknowledgement with the words / EUNMAPPED with the address
       write request  ->  register_block_write  ->  ACK / EUNMAPPED / EACCESS / ERANGE / EINVALID with the address

   RegTable.tla gives the table semantics, RegpOps.tla the wire.  Payload words travel as the octet image of the
   table's atoms, i.e. in the table's byte order.  This is behaviour beyond the listed properties (DESIGN.md
   section 11); it is checked by bin/extras, not by a registered check.

   Event (harness/regtab.c):  serve tr cap nw <wire>  |  <reply wire> -7 <memory image> -7 <touched>          *)
EXTENDS RegTable
R == INSTANCE RegpOps

Code2Resp(c) == CASE c = OK -> R!ACK [] c = NOENTRY -> R!EUNMAPPED [] c = UNINIT -> R!EUNMAPPED
                  [] c = RANGE -> R!ERANGE [] c = INVALID -> R!EINVALID [] c = READONLY -> R!EACCESS [] OTHER -> R!EIO
A32(a) == <<a \div 65536, a % 65536>>
Addr(p) == p[1] * 65536 + p[2]              \* model addresses are small
WordOctets(t, w) == IF t.be = 1 THEN <<w \div 256, w % 256>> ELSE <<w % 256, w \div 256>>
RECURSIVE WordsToOctets(_, _)
WordsToOctets(t, ws) == IF ws = <<>> THEN <<>> ELSE WordOctets(t, Head(ws)) \o WordsToOctets(t, Tail(ws))
OctetsToWords(t, o) == [k \in 1..(Len(o) \div 2) |-> IF t.be = 1 THEN o[2 * k - 1] * 256 + o[2 * k] ELSE o[2 * k] * 256 + o[2 * k - 1]]

(* allowed (reply frames, memory, touched) triples for one well-formed request frame o that fits the block *)
ServeAllowed(tr, cap, o) ==
    LET f == R!Fields(o)
        cfg == [tr |-> tr, mem16 |-> TRUE, cap |-> cap]
        addr == Addr(f.addr)
        n == f.bs[2]
    IN IF ~R!Has(f.opts, R!O_WS16)
       THEN {<<<<R!ErrResponse(tr, f.type, R!EWORDSIZE, f.sq, f.addr, <<0, 0>>)>>, mem, touched>>}
       ELSE IF f.type = R!T_RREQ
       THEN LET r == BRResult(d, mem, addr, n)
            IN IF ~inited THEN {<<<<R!ErrResponse(tr, f.type, R!EUNMAPPED, f.sq, f.addr, A32(addr))>>, mem, touched>>}
               ELSE IF r[1] = OK
               THEN {<<<<R!AckResponse(tr, f.type, TRUE, f.sq, f.addr, n, WordsToOctets(d, Drop(r, 2)))>>, mem, touched>>}
               ELSE {<<<<R!ErrResponse(tr, f.type, Code2Resp(r[1]), f.sq, f.addr, A32(r[2]))>>, mem, touched>>}
       ELSE LET ws == OctetsToWords(d, R!PayloadOf(o))
                allowed == BWAllowed(d, mem, addr, ws)
            IN IF ~inited THEN {<<<<R!ErrResponse(tr, f.type, R!EUNMAPPED, f.sq, f.addr, A32(addr))>>, mem, touched>>}
               ELSE IF allowed = {<<OK, 0>>}
               THEN {<<<<R!AckResponse(tr, f.type, TRUE, f.sq, f.addr, 0, <<>>)>>,
                       IF ws = <<>> THEN mem ELSE BWMem(d, mem, addr, ws),
                       IF ws = <<>> THEN touched ELSE touched \cup Overlapped(d, addr, Len(ws))>>}
               ELSE {<<<<R!ErrResponse(tr, f.type, Code2Resp(x[1]), f.sq, f.addr, A32(x[2]))>>, mem, touched>> : x \in allowed}

RECURSIVE FlatWire(_, _)
FlatWire(tr, fs) == IF fs = <<>> THEN <<>> ELSE R!Wire(tr, Head(fs)) \o FlatWire(tr, Tail(fs))
ServeObs(tr, x) == FlatWire(tr, x[1]) \o <<-7>> \o Image(x[2]) \o <<-7>> \o TouchVec(d, x[3])

(* the action: the environment delivers one framed, well-formed request *)
Serve(tr, cap, wire) ==
    /\ d # <<>>
    /\ LET u == R!Unframe(tr, wire)
           o == u.frame
       IN /\ u.st = "ok" /\ R!Classes(o) = {R!C_OK} /\ R!IsRequest(o) /\ Len(o) <= cap
          /\ (R!Fields(o).type = R!T_RREQ => R!ReadFits([tr |-> tr, mem16 |-> TRUE, cap |-> cap], o))
          /\ \E x \in ServeAllowed(tr, cap, o) :
                /\ mem' = x[2] /\ touched' = x[3] /\ UNCHANGED <<d, inited>>
                /\ ev' = [op |-> "serve", a |-> <<tr, cap, Len(wire)>> \o wire, o |-> ServeObs(tr, x),
                          alts |-> {ServeObs(tr, y) : y \in ServeAllowed(tr, cap, o)}]
=============================================================================
