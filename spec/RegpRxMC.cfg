SPECIFICATION Spec
INVARIANT C09Holds
CONSTRAINT EmitCases
CHECK_DEADLOCK FALSE
