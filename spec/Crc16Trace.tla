----------------------------- MODULE Crc16Trace -----------------------------
(* E2: every checksum the real library returned for a recorded call is recomputed from the
   specification.  Events (harness/crc.c):
     crc   c n d1..dn | whole splits_bad conv   -- ufw_crc16_arc(c, buf, n); number of split positions at
                                                   which continuing differs; buffer-variant agreement
     crcw  c n w1..wn | result                  -- ufw_crc16_arc_u16 on an array of host words
     host             | le                      -- host octet order                                  *)
EXTENDS Crc16, Json, IOUtils
TraceLog == ndJsonDeserialize(IOEnv.TRACE)
VARIABLE l
e == TraceLog[l]
TInit == crc = 0 /\ ev = Boot /\ l = 1
Expected == CASE e.op = "crc" -> <<Buffer(e.a[1], Drop(e.a, 2)), 0, 1>>
              [] e.op = "crcw" -> <<BufferU16(e.a[1], Drop(e.a, 2))>>
              [] e.op = "host" -> <<HostLE>>
              [] e.op = "step" -> <<Step(e.a[1], e.a[2])>>
              [] OTHER -> <<>>
TNext == /\ l <= Len(TraceLog) /\ l' = l + 1
         /\ (e.op # "@" => e.o = Expected /\ e.asan = 0)
         /\ crc' = (IF e.op \in {"crc", "crcw", "step"} THEN e.o[1] ELSE crc) /\ ev' = ev
TSpec == TInit /\ [][TNext]_<<crc, ev, l>>
Accepted == LET n == TLCGet("stats").diameter - 1
            IN PrintT("L;;" \o ToString(n)) /\ n = Len(TraceLog)
=============================================================================
