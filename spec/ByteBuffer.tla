----------------------------- MODULE ByteBuffer -----------------------------
(* ufw byte buffer (include/ufw/byte-buffer.h, src/byte-buffer.c), property C18.

   State is what the API exposes: the capacity, the filled octets [0,used) and the read offset.
   One action per public call; every action records the event (name, arguments, prescribed
   observation) in the ghost variable ev, which is hidden from the state space by the VIEW.

   Observation layout (harness/bytebuf.c):  rc size used offset frame filled...  [-7 returned...]
   rc: 0 / -1 (any failure; C18 does not name the codes) / count / query result
   frame: 1 iff a refused call or a query changed the struct or the block (always 0 in the model). *)
EXTENDS Emit

CONSTANTS MaxSize,     \* model checking bound on the capacity
          Alphabet     \* octets used by Add in the model
FillOctet == 170        \* what the harness puts into a fresh block

VARIABLES valid,   \* the object designates a block (set-up succeeded and not nulled since)
          size, filled, offset, ev
vars == <<valid, size, filled, offset>>

Used == Len(filled)
Unread == Drop(filled, offset)
Proj(rc) == <<rc, size, Used, offset, 0>> \o filled
Proj2(rc, sz, f, off) == <<rc, sz, Len(f), off, 0>> \o f

Init == valid = FALSE /\ size = 0 /\ filled = <<>> /\ offset = 0 /\ ev = Boot

---------------------------------------------------------------------------
(* set-up: refuses null memory, zero size, used > size, offset > used *)
SetOk(sz, us, off, isnull) == isnull = 0 /\ sz > 0 /\ us <= sz /\ off <= us

Set(sz, us, off, isnull) ==
    IF SetOk(sz, us, off, isnull)
    THEN /\ valid' = TRUE /\ size' = sz /\ filled' = Fill(us, FillOctet) /\ offset' = off
         /\ ev' = Ev("set", <<sz, us, off, isnull>>, Proj2(0, sz, Fill(us, FillOctet), off))
    ELSE /\ UNCHANGED vars
         /\ ev' = Ev("set", <<sz, us, off, isnull>>, Proj(-1))

Space(sz) ==
    IF sz > 0
    THEN /\ valid' = TRUE /\ size' = sz /\ filled' = <<>> /\ offset' = 0
         /\ ev' = Ev("space", <<sz>>, Proj2(0, sz, <<>>, 0))
    ELSE UNCHANGED vars /\ ev' = Ev("space", <<sz>>, Proj(-1))

Use(sz) ==
    IF sz > 0
    THEN /\ valid' = TRUE /\ size' = sz /\ filled' = Fill(sz, FillOctet) /\ offset' = 0
         /\ ev' = Ev("use", <<sz>>, Proj2(0, sz, Fill(sz, FillOctet), 0))
    ELSE UNCHANGED vars /\ ev' = Ev("use", <<sz>>, Proj(-1))

Null == /\ valid' = FALSE /\ size' = 0 /\ filled' = <<>> /\ offset' = 0
        /\ ev' = Ev("null", <<>>, Proj2(0, 0, <<>>, 0))

---------------------------------------------------------------------------
(* data movement; only on a valid object (API precondition) *)
Add(d) == /\ valid
          /\ IF Len(d) <= size - Used
             THEN /\ filled' = filled \o d /\ UNCHANGED <<valid, size, offset>>
                  /\ ev' = Ev("add", <<Len(d)>> \o d, Proj2(0, size, filled \o d, offset))
             ELSE UNCHANGED vars /\ ev' = Ev("add", <<Len(d)>> \o d, Proj(-1))

Consume(n) == /\ valid
              /\ IF n <= Used - offset
                 THEN /\ offset' = offset + n /\ UNCHANGED <<valid, size, filled>>
                      /\ ev' = Ev("consume", <<n>>,
                                  Proj2(0, size, filled, offset + n) \o <<-7>> \o Take(Unread, n))
                 ELSE UNCHANGED vars /\ ev' = Ev("consume", <<n>>, Proj(-1) \o <<-7>>)

ConsumeAtMost(n) ==
    /\ valid
    /\ LET rest == Used - offset
           k == MinOf(n, rest)
       IN IF rest > 0
          THEN /\ offset' = offset + k /\ UNCHANGED <<valid, size, filled>>
               /\ ev' = Ev("consume_at_most", <<n>>,
                           Proj2(k, size, filled, offset + k) \o <<-7>> \o Take(Unread, k))
          ELSE UNCHANGED vars /\ ev' = Ev("consume_at_most", <<n>>, Proj(-1) \o <<-7>>)

(* lengths just below SIZE_MAX (SIZE_MAX - k): there is never that much space or content, and the size arithmetic must not wrap *)
AddHuge(k) == valid /\ UNCHANGED vars /\ ev' = Ev("addhuge", <<k>>, Proj(-1))
ConsumeHuge(k) == valid /\ UNCHANGED vars /\ ev' = Ev("consumehuge", <<k>>, Proj(-1) \o <<-7>>)
ConsumeAtMostHuge(k) ==
    /\ valid
    /\ LET rest == Used - offset
       IN IF rest > 0
          THEN /\ offset' = Used /\ UNCHANGED <<valid, size, filled>>
               /\ ev' = Ev("camhuge", <<k>>, Proj2(rest, size, filled, Used) \o <<-7>> \o Unread)
          ELSE UNCHANGED vars /\ ev' = Ev("camhuge", <<k>>, Proj(-1) \o <<-7>>)

Rewind == IF ~valid
          THEN UNCHANGED vars /\ ev' = Ev("rewind", <<>>, Proj(-1))
          ELSE /\ filled' = Unread /\ offset' = 0 /\ UNCHANGED <<valid, size>>
               /\ ev' = Ev("rewind", <<>>, Proj2(0, size, Unread, 0))

(* clear: rc reports the number of non-zero octets left in the whole block, must be 0 *)
Clear == /\ valid /\ filled' = <<>> /\ offset' = 0 /\ UNCHANGED <<valid, size>>
         /\ ev' = Ev("clear", <<>>, Proj2(0, size, <<>>, 0))
Reset == /\ valid /\ filled' = <<>> /\ offset' = 0 /\ UNCHANGED <<valid, size>>
         /\ ev' = Ev("reset", <<>>, Proj2(0, size, <<>>, 0))
Repeat == /\ valid /\ offset' = 0 /\ UNCHANGED <<valid, size, filled>>
          /\ ev' = Ev("repeat", <<>>, Proj2(0, size, filled, 0))
Avail == valid /\ UNCHANGED vars /\ ev' = Ev("avail", <<>>, Proj(size - Used))
Rest == valid /\ UNCHANGED vars /\ ev' = Ev("rest", <<>>, Proj(Used - offset))

---------------------------------------------------------------------------
Next ==
    \/ \E sz \in 0..MaxSize : Space(sz) \/ Use(sz)
    \/ \E sz \in 0..MaxSize, us \in 0..MaxSize + 1, off \in 0..MaxSize + 1, nl \in {0, 1} :
          (us <= sz + 1 /\ off <= us + 1) /\ Set(sz, us, off, nl)
    \/ Null
    \/ \E d \in SeqsUpTo(Alphabet, size + 1) : Add(d)
    \/ \E n \in 0..size + 1 : Consume(n) \/ ConsumeAtMost(n)
    \/ \E k \in 0..size + 1 : AddHuge(k) \/ ConsumeHuge(k) \/ ConsumeAtMostHuge(k)
    \/ Rewind \/ Clear \/ Reset \/ Repeat \/ Avail \/ Rest

Spec == Init /\ [][Next]_<<vars, ev>>

---------------------------------------------------------------------------
(* beyond C18 (bin/extras, X03): the buffer endpoints of src/endpoints/buffer.c on top of the byte buffer.
   sink_to_buffer + sink_put_chunk(d)            = Add(d), reporting the count
   source_from_buffer + source_get_chunk(n)      = exactly n octets; if fewer are unread they are all
                                                   consumed and the source's end (-1) is reported
   source_from_buffer + source_get_chunk_atmost  = ConsumeAtMost
   Observation as for the byte buffer calls; rc = count / -1 / -22 (N = 0 is refused as invalid).          *)
SinkPut(d) == /\ valid
              /\ IF Len(d) = 0 THEN UNCHANGED vars /\ ev' = Ev("sinkput", <<0>>, Proj(-22))
                 ELSE IF Len(d) <= size - Used
                 THEN /\ filled' = filled \o d /\ UNCHANGED <<valid, size, offset>>
                      /\ ev' = Ev("sinkput", <<Len(d)>> \o d, Proj2(Len(d), size, filled \o d, offset))
                 ELSE UNCHANGED vars /\ ev' = Ev("sinkput", <<Len(d)>> \o d, Proj(-1))
SrcGet(n) == /\ valid
             /\ IF n = 0 THEN UNCHANGED vars /\ ev' = Ev("srcget", <<0>>, Proj(-22) \o <<-7>>)
                ELSE IF n <= Used - offset
                THEN /\ offset' = offset + n /\ UNCHANGED <<valid, size, filled>>
                     /\ ev' = Ev("srcget", <<n>>, Proj2(n, size, filled, offset + n) \o <<-7>> \o Take(Unread, n))
                ELSE /\ offset' = Used /\ UNCHANGED <<valid, size, filled>>
                     /\ ev' = Ev("srcget", <<n>>, <<-1, size, Used, Used, 0>> \o filled \o <<-7>>)
SrcGetAtMost(n) == /\ valid /\ n > 0
                   /\ LET rest == Used - offset
                          k == MinOf(n, rest)
                      IN IF rest > 0
                         THEN /\ offset' = offset + k /\ UNCHANGED <<valid, size, filled>>
                              /\ ev' = Ev("srcgetam", <<n>>, Proj2(k, size, filled, offset + k) \o <<-7>> \o Take(Unread, k))
                         ELSE UNCHANGED vars /\ ev' = Ev("srcgetam", <<n>>, Proj(-1) \o <<-7>>)
NextX == \/ Next
         \/ \E d \in SeqsUpTo(Alphabet, size + 1) : SinkPut(d)
         \/ \E n \in 0..size + 1 : SrcGet(n) \/ SrcGetAtMost(n)
SpecX == Init /\ [][NextX]_<<vars, ev>>

---------------------------------------------------------------------------
(* C18 as stated, checked on the model (E0) *)
BoundsInv == offset <= Used /\ Used <= size /\ (valid => size > 0)

rc(e) == e.o[1]
Refused(e) == Len(e.o) > 0 /\ rc(e) < 0

RefusedUnchanged == [][Refused(ev') => UNCHANGED vars]_<<vars, ev>>

AddAppends == [][ev'.op = "add" /\ ~Refused(ev') =>
                   /\ filled' = filled \o Drop(ev'.a, 1)
                   /\ Drop(filled', offset') = Unread \o Drop(ev'.a, 1)]_<<vars, ev>>
AddFailsIffNoSpace == [][ev'.op = "add" => (Refused(ev') <=> ev'.a[1] > size - Used)]_<<vars, ev>>

Returned(e) == Drop(e.o, 5 + e.o[3] + 1)   \* octets after the -7 separator
ConsumeOldestInOrder ==
    [][ev'.op \in {"consume", "consume_at_most"} /\ ~Refused(ev') =>
          /\ Unread = Returned(ev') \o Drop(filled', offset')
          /\ filled' = filled]_<<vars, ev>>
ConsumeFailsIffTooFew == [][ev'.op = "consume" => (Refused(ev') <=> ev'.a[1] > Used - offset)]_<<vars, ev>>
AtMostReturnsWhatIsThere ==
    [][ev'.op = "consume_at_most" =>
          /\ (Refused(ev') <=> Used = offset)
          /\ (~Refused(ev') => rc(ev') = MinOf(ev'.a[1], Used - offset) /\ Len(Returned(ev')) = rc(ev'))]_<<vars, ev>>
HugeRefused == [][ev'.op \in {"addhuge", "consumehuge"} => Refused(ev')]_<<vars, ev>>
RewindKeepsUnread ==
    [][ev'.op = "rewind" /\ ~Refused(ev') =>
          filled' = Unread /\ offset' = 0 /\ size' - Len(filled') = size - Len(Unread)]_<<vars, ev>>
EmptyingOps ==
    [][/\ ev'.op \in {"clear", "reset"} => filled' = <<>> /\ offset' = 0 /\ size' = size
       /\ ev'.op = "repeat" => filled' = filled /\ offset' = 0 /\ size' = size]_<<vars, ev>>
SetRefusesMalformed ==
    [][ev'.op = "set" => (Refused(ev') <=>
          (ev'.a[4] = 1 \/ ev'.a[1] = 0 \/ ev'.a[2] > ev'.a[1] \/ ev'.a[3] > ev'.a[2]))]_<<vars, ev>>

---------------------------------------------------------------------------
(* Unbounded capacities: ByteBufferAbs.tla keeps only the three counters; Apalache shows offset <= used <= size
   inductive there for every capacity and operand.  This property ties it to the present module: every step
   of ByteBuffer is a step of the abstraction with the same operands (checked by TLC on the bounded model). *)
Abs == INSTANCE ByteBufferAbs WITH size <- size, used <- Len(filled), offset <- offset
RefinesAbs ==
    [][CASE ev'.op \in {"set"} -> (IF Refused(ev') THEN UNCHANGED vars ELSE Abs!Set(ev'.a[1], ev'.a[2], ev'.a[3]))
         [] ev'.op = "space" -> (IF Refused(ev') THEN UNCHANGED vars ELSE Abs!Set(ev'.a[1], 0, 0))
         [] ev'.op = "use" -> (IF Refused(ev') THEN UNCHANGED vars ELSE Abs!Set(ev'.a[1], ev'.a[1], 0))
         [] ev'.op = "add" -> Abs!Add(ev'.a[1])
         [] ev'.op = "consume" -> Abs!Consume(ev'.a[1])
         [] ev'.op = "consume_at_most" -> Abs!ConsumeAtMost(ev'.a[1])
         [] ev'.op = "addhuge" -> Abs!Add(1000000 - ev'.a[1])                   \* (the abstraction is over Int: any length beyond every capacity)
         [] ev'.op = "consumehuge" -> Abs!Consume(1000000 - ev'.a[1])
         [] ev'.op = "camhuge" -> Abs!ConsumeAtMost(1000000 - ev'.a[1])
         [] ev'.op = "rewind" -> (IF Refused(ev') THEN UNCHANGED vars ELSE Abs!Rewind)
         [] ev'.op \in {"clear", "reset"} -> Abs!Empty
         [] ev'.op = "repeat" -> Abs!Repeat
         [] ev'.op = "null" -> size' = 0 /\ filled' = <<>> /\ offset' = 0
         [] OTHER -> UNCHANGED vars]_<<vars, ev>>

---------------------------------------------------------------------------
(* E1 plumbing *)
Key == ToString(<<valid, size, filled, offset>>)
View == vars
EmitAll == EmitEdge(Key, ToString(<<valid', size', filled', offset'>>), ev')
EmitInit == ev.op = "boot" => EmitInitial(Key)
=============================================================================
