------------------------------- MODULE SxTrace -------------------------------
(* E2: recorded parses of mutated renderings and random strings recomputed from Sx.tla *)
EXTENDS Sx, Json, IOUtils
TraceLog == ndJsonDeserialize(IOEnv.TRACE)
VARIABLE l
e == TraceLog[l]
TInit == phase = <<"trace">> /\ ev = Boot /\ l = 1
TNext == /\ l <= Len(TraceLog) /\ l' = l + 1
         /\ (e.op # "@" => e.o = ParseObs(Drop(e.a, 1)) /\ e.asan = 0)
         /\ UNCHANGED <<vars, ev>>
TSpec == TInit /\ [][TNext]_<<vars, ev, l>>
Accepted == LET n == TLCGet("stats").diameter - 1
            IN PrintT("L;;" \o ToString(n)) /\ n = Len(TraceLog)
=============================================================================
