------------------------------- MODULE Endian -------------------------------
(* ufw endian codecs (include/ufw/binary-format.h), property C15.

   A value of width W bits is the sequence of its W/8 octets, most significant first ("lanes").  Storing
   puts them into memory at ascending addresses in that order (big endian), reversed (little endian) or in
   host order (native; HostLE says which).  Loading inverts; signed kinds are sign-extended by the top bit of
   the most significant lane; floats are their bit patterns.  Swap(W) reverses the W/8 lanes.  InRange accepts
   exactly the values representable in W bits.

   Events (harness/endian.c); values travel as 8 octets v8, most significant first:
     set kind width order off v8     | ret <24 memory octets>      memory: canary 197 everywhere else
     ref kind width order off o..    | v8                          (W/8 octets given)
     swap width v8                   | v8
     inrange kind width v8           | 0/1
     sweep kind width order n lane.. | bad                         adapter-side exhaustive sweeps with TLC's lane map
   kind 0 unsigned, 1 signed, 2 float;  order 0 big, 1 little, 2 native                              *)
EXTENDS Emit, SequencesExt

CONSTANTS HostLE

VARIABLES phase, ev
vars == <<phase>>

Widths(kind) == IF kind = 2 THEN {32, 64} ELSE {16, 24, 32, 40, 48, 56, 64}
NB(w) == w \div 8
Rev(s) == [i \in 1..Len(s) |-> s[Len(s) + 1 - i]]
IsLittle(order) == order = 1 \/ (order = 2 /\ HostLE = 1)
(* lane map: memory position i (1-based, ascending address) holds lane LaneAt(w, order, i) of the value *)
LaneAt(w, order, i) == IF IsLittle(order) THEN NB(w) + 1 - i ELSE i
Lanes(v8, w) == SubSeq(v8, 9 - NB(w), 8)                      \* the W/8 low octets of the 64-bit argument
MemImage(w, order, lanes) == [i \in 1..NB(w) |-> lanes[LaneAt(w, order, i)]]
Canary == 197
Blank == Fill(24, Canary)
SetObs(kind, w, order, off, v8) ==
    <<off + NB(w)>> \o [i \in 1..24 |-> IF i > off /\ i <= off + NB(w) THEN MemImage(w, order, Lanes(v8, w))[i - off] ELSE Canary]
(* loading: octets at ascending addresses -> value, extended to 64 bits *)
FromMem(w, order, o) == [k \in 1..NB(w) |-> o[IF IsLittle(order) THEN NB(w) + 1 - k ELSE k]]
Extend(kind, lanes) == Fill(8 - Len(lanes), IF kind = 1 /\ lanes[1] >= 128 THEN 255 ELSE 0) \o lanes
RefObs(kind, w, order, o) == Extend(kind, FromMem(w, order, o))
SwapObs(w, v8) == Fill(8 - NB(w), 0) \o Rev(Lanes(v8, w))
(* representable: unsigned - the upper octets are zero; signed - they repeat the sign of the W-bit value *)
InRangeObs(kind, w, v8) ==
    LET up == SubSeq(v8, 1, 8 - NB(w))
        top == v8[9 - NB(w)]
    IN IF kind = 0 THEN (IF \A i \in 1..Len(up) : up[i] = 0 THEN 1 ELSE 0)
       ELSE IF (\A i \in 1..Len(up) : up[i] = 0) /\ top < 128 THEN 1
       ELSE IF (\A i \in 1..Len(up) : up[i] = 255) /\ top >= 128 THEN 1 ELSE 0

(* C15 on the model, per case *)
StoreLoadIdentity(kind, w, order, off, v8) ==
    LET so == SetObs(kind, w, order, off, v8)
        mem == Drop(so, 1)
    IN /\ so[1] = off + NB(w)                                                         \* returns the address just past
       /\ \A i \in 1..24 : (i <= off \/ i > off + NB(w)) => mem[i] = Canary             \* neighbours untouched
       /\ RefObs(kind, w, order, SubSeq(mem, off + 1, off + NB(w))) = Extend(kind, Lanes(v8, w))
       /\ (order = 0 => SubSeq(mem, off + 1, off + NB(w)) = Lanes(v8, w))               \* big endian: most significant first
       /\ (order = 1 => SubSeq(mem, off + 1, off + NB(w)) = Rev(Lanes(v8, w)))
SwapInvolution(w, v8) == SwapObs(w, SwapObs(w, v8)) = Fill(8 - NB(w), 0) \o Lanes(v8, w)

(* sample values: eight pairwise distinct lane tokens (shows every lane's position), sign patterns, extremes *)
Samples == {<<17, 34, 51, 68, 85, 102, 119, 136>>, <<129, 130, 131, 132, 133, 134, 135, 136>>,
            <<255, 255, 255, 255, 255, 255, 255, 255>>, <<0, 0, 0, 0, 0, 0, 0, 0>>, <<128, 0, 0, 0, 0, 0, 0, 0>>,
            <<0, 128, 0, 128, 0, 128, 0, 128>>, <<127, 255, 127, 255, 127, 255, 127, 255>>, <<1, 2, 3, 4, 5, 6, 7, 200>>,
            <<127, 240, 0, 0, 127, 192, 18, 52>>}
Edge == UNION {{ [i \in 1..8 |-> IF i < 9 - k THEN 0 ELSE IF i = 9 - k THEN 128 ELSE 0],
                 [i \in 1..8 |-> IF i < 9 - k THEN 0 ELSE IF i = 9 - k THEN 127 ELSE 255],
                 [i \in 1..8 |-> IF i < 9 - k THEN 255 ELSE IF i = 9 - k THEN 128 ELSE 0],
                 [i \in 1..8 |-> IF i < 9 - k THEN 255 ELSE IF i = 9 - k THEN 127 ELSE 255],
                 [i \in 1..8 |-> IF i = 8 - k THEN 1 ELSE 0],
                 [i \in 1..8 |-> IF i <= 8 - k THEN 255 ELSE 0] } : k \in {2, 3, 4, 5, 6, 7, 8}}
Init == /\ phase \in {<<"b", op, kind>> : op \in {"set", "ref", "swap", "inrange", "sweep"}, kind \in {0, 1, 2}} /\ ev = Boot
Next == /\ phase[1] = "b" /\ ev' = Boot
        /\ LET op == phase[2]
               kind == phase[3]
           IN \/ op \in {"set", "ref"} /\ \E w \in Widths(kind), order \in {0, 1, 2}, off \in 0..7 : \E v8 \in Samples \cup (IF off \in {0, 3} THEN Edge ELSE {}) :
                                              phase' = <<"c", op, kind, w, order, off, v8>>
              \/ op = "swap" /\ kind = 0 /\ \E w \in Widths(0), v8 \in Samples : phase' = <<"c", op, kind, w, 0, 0, v8>>
              \/ op = "inrange" /\ kind \in {0, 1} /\ \E w \in {24, 40, 48, 56}, v8 \in Samples \cup Edge : phase' = <<"c", op, kind, w, 0, 0, v8>>
              \/ op = "sweep" /\ \E w \in Widths(kind), order \in {0, 1, 2} : phase' = <<"c", op, kind, w, order, 0, Fill(8, 0)>>
Spec == Init /\ [][Next]_<<vars, ev>>

Q == phase
CaseInv == phase[1] = "c" =>
    CASE Q[2] = "set" -> StoreLoadIdentity(Q[3], Q[4], Q[5], Q[6], Q[7])
      [] Q[2] = "swap" -> SwapInvolution(Q[4], Q[7])
      [] OTHER -> TRUE
CaseLine ==
    CASE Q[2] = "set" -> "set " \o Join(<<Q[3], Q[4], Q[5], Q[6]>> \o Q[7]) \o " | " \o Join(SetObs(Q[3], Q[4], Q[5], Q[6], Q[7]))
      [] Q[2] = "ref" -> LET o == MemImage(Q[4], Q[5], Lanes(Q[7], Q[4]))
                         IN "ref " \o Join(<<Q[3], Q[4], Q[5], Q[6]>> \o o) \o " | " \o Join(RefObs(Q[3], Q[4], Q[5], o))
      [] Q[2] = "swap" -> "swap " \o Join(<<Q[4]>> \o Q[7]) \o " | " \o Join(SwapObs(Q[4], Fill(8 - NB(Q[4]), 0) \o Lanes(Q[7], Q[4])))
      [] Q[2] = "inrange" -> "inrange " \o Join(<<Q[3], Q[4]>> \o Q[7]) \o " | " \o Join(<<InRangeObs(Q[3], Q[4], Q[7])>>)
      [] OTHER -> "sweep " \o Join(<<Q[3], Q[4], Q[5], NB(Q[4])>> \o [i \in 1..NB(Q[4]) |-> LaneAt(Q[4], Q[5], i)]) \o " | 0"
EmitCases == phase[1] = "c" => EmitCase(CaseLine)
=============================================================================
