----------------------------- MODULE RegpEmitMC -----------------------------
(* E0/E1 for C08: TLC enumerates a grid of calls of every emit entry point, checks on each that the prescribed
   frame is one the specification's own reading accepts with the same fields, that the framing is transparent
   (unframing the wire image gives the frame back, the SLIP delimiter occurs only as delimiter, the varint prefix is
   minimal), that the checksums are present exactly on serial links (payload checksum only with payload) and that a
   request advances the sequence number by one modulo 2^16 - and emits the call with its prescribed observation
   for replay on the real library.                                                                      *)
EXTENDS RegpOps, FiniteSets, TLC

VARIABLE phase
Addrs == {<<0, 0>>, <<0, 1>>, <<65535, 65535>>, <<49371, 56541>>}          \* incl. C0DB DCDD: SLIP octets in the header
Seqs == {0, 1, 65535, 49371}
Octs == {192, 219, 220, 221, 7}
Payloads(n) == {s \in SeqsUpTo(Octs, n) : Len(s) = n}

Init == phase \in {<<"b", kind, tr, mem16>> : kind \in {1, 2, 3, 4, 5, 30} \cup 11..21, tr \in {0, 1}, mem16 \in {0, 1}}
Next == /\ phase[1] = "b"
        /\ LET kind == phase[2]
               tr == phase[3]
               m == phase[4]
           IN \/ kind \in {1, 2} /\ \E sq \in Seqs, a \in Addrs, n \in {0, 1, 255, 256, 65535} :
                    phase' = <<"c", <<kind, tr, m, sq>> \o a \o <<n>>>>
              \/ kind \in {3, 4} /\ \E sq \in Seqs, a \in Addrs, n \in {1, 2} : \E pl \in Payloads(n * (IF kind = 4 THEN 2 ELSE 1)) :
                    phase' = <<"c", <<kind, tr, m, sq>> \o a \o <<n>> \o pl>>
              \/ kind = 5 /\ \E rt \in {0, 2}, sq \in Seqs, a \in Addrs, n \in {0, 1, 2} : \E pl \in Payloads(IF rt = 0 THEN n * (IF m = 1 THEN 2 ELSE 1) ELSE 0) :
                    (rt = 2 => n = 0) /\ phase' = <<"c", <<5, tr, m, 0, rt, sq>> \o a \o <<n>> \o pl>>
              \/ kind \in 11..21 /\ \E rt \in {0, 2}, sq \in Seqs, a \in Addrs, v \in Addrs :
                    phase' = <<"c", <<kind, tr, m, 0, rt, sq>> \o a \o v>>
              \/ kind = 30 /\ \E meta \in {1, 2} : phase' = <<"c", <<30, tr, m, 0, meta>>>>
Spec == Init /\ [][Next]_phase

Args == phase[2]
Count(s, x) == Cardinality({i \in 1..Len(s) : s[i] = x})
EmitConforms ==
    phase[1] = "c" =>
        LET fr == EmittedFrameOf(Args)
            tr == Args[2]
            w == Wire(tr, fr)
            f == Fields(fr)
        IN /\ Classes(fr) = {C_OK}
           /\ Unframe(tr, w) = [st |-> "ok", frame |-> fr]                       \* framing is transparent
           /\ (tr = 0 => Count(w, 192) = 1 /\ w[Len(w)] = 192)                   \* delimiter only delimits
           /\ ((tr = 1 /\ Len(fr) < 128) => w[1] = Len(fr))                      \* one-octet prefix while it fits
           /\ (Has(f.opts, O_HDCRC) <=> tr = 0)
           /\ (Has(f.opts, O_PLCRC) <=> (tr = 0 /\ PayloadOf(fr) # <<>>))
           /\ (Args[1] \in 1..4 => EmitObs(Args)[2] = (Args[4] + 1) % 65536)
EmitCases == phase[1] = "c" => PrintT("C;;emit " \o Join(Args) \o " | " \o Join(EmitObs(Args)))
=============================================================================
