SPECIFICATION Spec
CONSTANTS
  Classes = {192, 219, 220, 221, 65}
  MaxRaw = 6
  MaxRawErr = 4
  MaxPayload = 5
CHECK_DEADLOCK FALSE
