SPECIFICATION Spec
CONSTANTS
  MaxSize = 3
  MaxN = 3
  Errs = {5, 61}
VIEW View
INVARIANT TypeInv
PROPERTIES ReadsInOrder NothingBeyondSchedule WritesStopAtSchedule CountsAreExact
CONSTRAINT EmitInit
ACTION_CONSTRAINT EmitAll
CHECK_DEADLOCK FALSE
