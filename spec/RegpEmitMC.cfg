SPECIFICATION Spec
INVARIANT EmitConforms
CONSTRAINT EmitCases
CHECK_DEADLOCK FALSE
