--------------------------- MODULE RegServerTrace ---------------------------
(* validates recorded executions of the protocol-server-on-register-table composition *)
EXTENDS RegServer, Json, IOUtils
TraceLog == ndJsonDeserialize(IOEnv.TRACE)
VARIABLE l
e == TraceLog[l]
TInitS == Init /\ l = 1
Restart == d' = <<>> /\ inited' = FALSE /\ mem' = <<>> /\ touched' = {} /\ ev' = [op |-> "@", a |-> <<>>, o |-> <<>>, alts |-> {<<>>}]
V(ty, w4) == LastN(w4, Size(ty))
(* the implementation's state after the call is in the log: pick the allowed outcome that matches it *)
ServeStep == LET tr == e.a[1]
                 cap == e.a[2]
                 wire == Drop(e.a, 3)
                 u == R!Unframe(tr, wire)
             IN /\ u.st = "ok"
                /\ \E x \in ServeAllowed(tr, cap, u.frame) :
                      /\ ServeObs(tr, x) = e.o
                      /\ mem' = x[2] /\ touched' = x[3] /\ UNCHANGED <<d, inited>>
                      /\ ev' = [op |-> "serve", a |-> e.a, o |-> e.o, alts |-> {e.o}]
Step == CASE e.op = "@" -> Restart
          [] e.op = "tinit" -> TInit(Unflatten(e.a))
          [] e.op = "set" -> Set(e.a[1], e.a[3], V(e.a[3], SubSeq(e.a, 4, 7)), e.a[2])
          [] e.op = "get" -> Get(e.a[1])
          [] e.op = "bread" -> BlockRead(e.a[1], e.a[2])
          [] e.op = "corrupt" -> Corrupt(e.a[1], e.a[2])
          [] e.op = "sanitise" -> Sanitise
          [] e.op = "serve" -> ServeStep
          [] OTHER -> FALSE
TNext == /\ l <= Len(TraceLog) /\ l' = l + 1 /\ Step
         /\ (e.op # "@" => e.o \in ev'.alts /\ e.asan = 0)
TSpec == TInitS /\ [][TNext]_<<vars, ev, l>>
Accepted == LET n == TLCGet("stats").diameter - 1
            IN PrintT("L;;" \o ToString(n)) /\ n = Len(TraceLog)
=============================================================================
