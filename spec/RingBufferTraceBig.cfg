SPECIFICATION TSpec
CONSTANTS
  MaxCap = 3
  Alphabet = {1, 2}
  Types = {8, 32}
POSTCONDITION Accepted
CHECK_DEADLOCK FALSE
