SPECIFICATION Spec
CONSTANTS
  MaxSize = 4
  MaxChunks = 2
INVARIANT CaseInv
CONSTRAINT EmitCases
CHECK_DEADLOCK FALSE
