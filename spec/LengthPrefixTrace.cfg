SPECIFICATION TSpec
CONSTANTS
  MaxSize = 1
  MaxChunks = 1
POSTCONDITION Accepted
CHECK_DEADLOCK FALSE
