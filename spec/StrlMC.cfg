SPECIFICATION Spec
INVARIANT CaseInv
INVARIANT CatAfterCpy
CONSTRAINT EmitCases
CHECK_DEADLOCK FALSE
