----------------------------- MODULE RegInitMC -----------------------------
(* E0/E1 for C04: TLC enumerates table descriptions from a small grid - 0..2 areas (bases, sizes, loads-defaults /
   no write callback / skip-defaults) x 0..2 registers (u16/u32 at every address of the window, unconstrained /
   range with acceptable default / range with unacceptable default) - checks for every one of them that the staged
   procedure InitAllowed accepts exactly the descriptions that satisfy the five rules of the statement (WellFormed),
   and emits the description with its allowed results for replay on the real register_init.                    *)
EXTENDS RegTable

CONSTANTS EmitRegs      \* emit cases with at most this many registers when there are two areas (all are checked)

VARIABLE phase
AreaSet == {[base |-> b, size |-> sz, rd |-> 1, wr |-> 1, skip |-> k[1], hasw |-> k[2], kind |-> 0] :
              b \in {0, 2, 3}, sz \in {1, 2, 3}, k \in {<<0, 1>>, <<0, 0>>, <<1, 1>>}}
RegSet == {[ty |-> ty, addr |-> a, ck |-> c[1], lo |-> IF ty = 0 THEN <<10>> ELSE <<0, 10>>, hi |-> IF ty = 0 THEN <<20>> ELSE <<0, 20>>,
            def |-> IF ty = 0 THEN <<c[2]>> ELSE <<0, c[2]>>] : ty \in {0, 1}, a \in 0..5, c \in {<<0, 7>>, <<4, 15>>, <<4, 25>>}}
AreaSeqs == SeqsUpTo(AreaSet, 2)
RegSeqs == SeqsUpTo(RegSet, 2)

MCInit == phase \in {<<"b", as>> : as \in AreaSeqs} /\ Init
MCNext == /\ phase[1] = "b"
        /\ \E rs \in RegSeqs : phase' = <<"c", [be |-> 0, areas |-> phase[2], regs |-> rs]>>
MCSpec == MCInit /\ [][MCNext /\ UNCHANGED <<vars, ev>>]_<<phase, vars, ev>>

AcceptsIffWellFormed == phase[1] = "c" => ((InitAllowed(phase[2]) = {<<I_OK, 0>>}) <=> WellFormed(phase[2]))
OkObs(t) == <<I_OK, 0>> \o FlatSeq(AreaLinks(t)) \o <<-7>> \o Image(InitMem(t))
EmitCases == (phase[1] = "c" /\ (Len(phase[2].areas) < 2 \/ Len(phase[2].regs) <= EmitRegs)) =>
    LET t == phase[2]
        allowed == InitAllowed(t)
    IN PrintT("C;;tinit " \o Join(Flatten(t)) \o " | "
              \o (IF allowed = {<<I_OK, 0>>} THEN Join(OkObs(t)) ELSE JoinAlts(SetToSeq(allowed))))
=============================================================================
