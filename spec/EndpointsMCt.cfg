SPECIFICATION Spec
CONSTANTS
  MaxN = 6
  MaxScript = 5
  MaxPScript = 3
  MaxKScript = 2
INVARIANT CaseInv
CONSTRAINT EmitCases
CHECK_DEADLOCK FALSE
