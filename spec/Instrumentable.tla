--------------------------- MODULE Instrumentable ---------------------------
(* Instrumentable endpoints (src/endpoints/instrumentable.c, extra X06): an octet source and an octet sink over one
   buffer whose failures can be scheduled: "from count c on, answer e".  Driven through the octet calls and through the
   chunk calls of src/endpoints/core.c, whose adaptors turn octet endpoints into chunk endpoints (C17 states their
   contract; here it is composed with a concrete endpoint).

   setup s u        buffer of s octets, u of them filled with 11, 12, ...; source and sink attached (clears schedule, counts)
   errat c e        schedule answer e (negative errno) from count c on          noerr   clear the schedule
   get              source_get_octet        | rc val offset used rd wr
   put v            sink_put_octet          | rc 0 offset used rd wr
   getn n / getam n source_get_chunk / _atmost | rc offset used rd wr <octets on success>
   putn n / putam n sink_put_chunk / _atmost (values 101, 102, ...) | rc offset used rd wr <buffer>           *)
EXTENDS Emit, SequencesExt, TLC

CONSTANTS MaxSize, MaxN, Errs
NONE == 99
ENODATA == 0 - 61
ENOMEM == 0 - 12
EINVAL == 0 - 22

VARIABLES size, mem, offset, errat, errno, rd, wr, ev
vars == <<size, mem, offset, errat, errno, rd, wr>>
used == Len(mem)

Init == size = NONE /\ mem = <<>> /\ offset = 0 /\ errat = NONE /\ errno = 0 /\ rd = 0 /\ wr = 0 /\ ev = Boot

Setup(s, u) == /\ u <= s
               /\ size' = s /\ mem' = [k \in 1..u |-> 10 + k] /\ offset' = 0 /\ errat' = NONE /\ errno' = 0 /\ rd' = 0 /\ wr' = 0
               /\ ev' = Ev("setup", <<s, u>>, <<0>>)
ErrAt(c, e) == /\ size # NONE /\ errat' = c /\ errno' = e /\ UNCHANGED <<size, mem, offset, rd, wr>>
               /\ ev' = Ev("errat", <<c, 0 - e>>, <<0>>)
NoErr == /\ size # NONE /\ errat # NONE /\ errat' = NONE /\ errno' = 0 /\ UNCHANGED <<size, mem, offset, rd, wr>>
         /\ ev' = Ev("noerr", <<>>, <<0>>)

(* one octet from the source: what stops it, if anything *)
SrcStop(off) == IF errat # NONE /\ off >= errat THEN errno ELSE IF off >= used THEN ENODATA ELSE 0
SnkStop(u) == IF errat # NONE /\ u >= errat THEN errno ELSE IF u = size THEN ENOMEM ELSE 0
(* number of octets the source delivers from offset before something stops it, at most n *)
RECURSIVE SrcRun(_, _)
SrcRun(off, n) == IF n = 0 \/ SrcStop(off) # 0 THEN 0 ELSE 1 + SrcRun(off + 1, n - 1)
RECURSIVE SnkRun(_, _)
SnkRun(u, n) == IF n = 0 \/ SnkStop(u) # 0 THEN 0 ELSE 1 + SnkRun(u + 1, n - 1)

Get == /\ size # NONE
       /\ LET st == SrcStop(offset)
          IN IF st # 0 THEN /\ UNCHANGED vars /\ ev' = Ev("get", <<>>, <<st, 0, offset, used, rd, wr>>)
             ELSE /\ offset' = offset + 1 /\ rd' = rd + 1 /\ UNCHANGED <<size, mem, errat, errno, wr>>
                  /\ ev' = Ev("get", <<>>, <<1, mem[offset + 1], offset + 1, used, rd + 1, wr>>)
Put(v) == /\ size # NONE
          /\ LET st == SnkStop(used)
             IN IF st # 0 THEN /\ UNCHANGED vars /\ ev' = Ev("put", <<v>>, <<st, 0, offset, used, rd, wr>>)
                ELSE /\ mem' = Append(mem, v) /\ wr' = wr + 1 /\ UNCHANGED <<size, offset, errat, errno, rd>>
                     /\ ev' = Ev("put", <<v>>, <<1, 0, offset, used + 1, rd, wr + 1>>)
(* chunk calls: the adaptor takes octets until one is refused; "all of n" reports the refusal unless all n arrived,
   "at most n" hands out what arrived before the end of the data (ENODATA) and reports any other refusal *)
GetChunk(n, atmost) ==
    /\ size # NONE
    /\ LET k == SrcRun(offset, n)
           st == SrcStop(offset + k)
           rc == IF n = 0 /\ ~atmost THEN EINVAL ELSE IF k = n THEN n ELSE IF atmost /\ st = ENODATA /\ k > 0 THEN k ELSE st
           kk == IF n = 0 THEN 0 ELSE k
       IN /\ offset' = offset + kk /\ rd' = rd + kk /\ UNCHANGED <<size, mem, errat, errno, wr>>
          /\ ev' = Ev(IF atmost THEN "getam" ELSE "getn", <<n>>, <<rc, offset + kk, used, rd + kk, wr>> \o (IF rc > 0 THEN SubSeq(mem, offset + 1, offset + rc) ELSE <<>>))
PutChunk(n, atmost) ==
    /\ size # NONE
    /\ LET k == SnkRun(used, n)
           st == SnkStop(used + k)
           rc == IF n = 0 /\ ~atmost THEN EINVAL ELSE IF k = n THEN n ELSE st
           m == mem \o [j \in 1..k |-> 100 + j]
       IN /\ mem' = m /\ wr' = wr + k /\ UNCHANGED <<size, offset, errat, errno, rd>>
          /\ ev' = Ev(IF atmost THEN "putam" ELSE "putn", <<n>>, <<rc, offset, Len(m), rd, wr + k>> \o m)

Next == \/ \E s \in 0..MaxSize, u \in 0..MaxSize : size = NONE /\ Setup(s, u)
        \/ \E c \in 0..MaxSize, e \in Errs : ErrAt(c, 0 - e)
        \/ NoErr \/ Get \/ \E v \in {1, 2} : Put(v)
        \/ \E n \in 0..MaxN, am \in BOOLEAN : GetChunk(n, am) \/ PutChunk(n, am)
Spec == Init /\ [][Next]_<<vars, ev>>

TypeInv == size # NONE => used <= size /\ offset <= used
ReadsInOrder == [][(ev'.op \in {"get", "getn", "getam"} /\ ev'.o[1] > 0 /\ ev'.op # "get") =>
                      Drop(ev'.o, 5) = SubSeq(mem, offset + 1, offset' )]_vars                \* what is handed out is exactly what was consumed
NothingBeyondSchedule == [][(errat # NONE /\ ev'.op \in {"get", "getn", "getam"}) => (offset' <= errat \/ offset' = offset)]_vars
WritesStopAtSchedule == [][(errat # NONE /\ ev'.op \in {"put", "putn", "putam"}) => (Len(mem') <= errat \/ mem' = mem)]_vars
CountsAreExact == [][size # NONE /\ size' = size => rd' - rd = offset' - offset /\ wr' - wr = Len(mem') - Len(mem)]_vars

Key == ToString(<<size, mem, offset, errat, errno, rd, wr>>)
View == vars
EmitAll == EmitEdge(Key, ToString(<<size', mem', offset', errat', errno', rd', wr'>>), ev')
EmitInit == ev.op = "boot" => EmitInitial(Key)
=============================================================================
