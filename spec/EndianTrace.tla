----------------------------- MODULE EndianTrace -----------------------------
(* E2: recorded codec calls with random 64-bit values recomputed from Endian.tla *)
EXTENDS Endian, Json, IOUtils
TraceLog == ndJsonDeserialize(IOEnv.TRACE)
VARIABLE l
e == TraceLog[l]
TInit == phase = <<"trace">> /\ ev = Boot /\ l = 1
Expected == CASE e.op = "set" -> SetObs(e.a[1], e.a[2], e.a[3], e.a[4], SubSeq(e.a, 5, 12))
              [] e.op = "ref" -> RefObs(e.a[1], e.a[2], e.a[3], Drop(e.a, 4))
              [] e.op = "swap" -> SwapObs(e.a[1], SubSeq(e.a, 2, 9))
              [] e.op = "inrange" -> <<InRangeObs(e.a[1], e.a[2], SubSeq(e.a, 3, 10))>>
              [] e.op = "sweep" -> <<0>>
              [] OTHER -> <<>>
TNext == /\ l <= Len(TraceLog) /\ l' = l + 1
         /\ (e.op # "@" => e.o = Expected /\ e.asan = 0)
         /\ UNCHANGED <<vars, ev>>
TSpec == TInit /\ [][TNext]_<<vars, ev, l>>
Accepted == LET n == TLCGet("stats").diameter - 1
            IN PrintT("L;;" \o ToString(n)) /\ n = Len(TraceLog)
=============================================================================
