SPECIFICATION MCSpec
CONSTANTS
  EmitRegs = 1
INVARIANT AcceptsIffWellFormed
CONSTRAINT EmitCases
CHECK_DEADLOCK FALSE
