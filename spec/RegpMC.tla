------------------------------- MODULE RegpMC -------------------------------
(* E0 for C07: the CRC-16/ARC guarantee of the protocol, model-checked on the specification itself.
   TLC enumerates, for a corpus of serial frames built by RegpOps, EVERY single-bit error, EVERY two-bit error
   behind the first header word (address, size, sequence, checksum and payload octets, as C07 states), EVERY burst pattern of length 2..MaxBurst at every
   bit offset behind the first header word that stays inside one checksum region (all 2^(len-2) patterns whose first
   and last bit are hit), every
   truncation and small extensions, and checks that the independent reading Classes never says "ok".
   Every case is one TLC state; the corpus index and error kind bucket the work over the workers.          *)
EXTENDS RegpOps, FiniteSets, TLC

CONSTANTS MaxBurst, TwoBitFrames, EmitEvery

VARIABLES phase
Corpus == <<
    Request(0, FALSE, FALSE, 4660, <<1, 2>>, 5, <<>>),                          \* read8
    Request(0, FALSE, TRUE, 65535, <<0, 256>>, 3, <<>>),                        \* read16
    Request(0, TRUE, FALSE, 7, <<0, 16>>, 2, <<171, 205>>),                     \* write8, 2 octets
    Request(0, TRUE, TRUE, 8, <<0, 16>>, 1, <<0, 0>>),                          \* write16, payload with checksum 0
    Request(0, TRUE, TRUE, 9, <<49371, 56541>>, 2, <<192, 219, 220, 221>>),     \* write16, SLIP octets in address and payload
    AckResponse(0, T_RREQ, TRUE, 10, <<0, 32>>, 1, <<18, 52>>),                 \* read response with payload
    AckResponse(0, T_WREQ, FALSE, 11, <<0, 32>>, 0, <<>>),                      \* write response
    ErrResponse(0, T_WREQ, EUNMAPPED, 12, <<0, 32>>, <<0, 33>>),                \* error response with 32-bit payload
    MetaMessage(0, M_HEADERENC) >>

(* bits are numbered in transmission order: serial links send the least significant bit of each octet first, which is
   the order the reflected CRC-16/ARC is defined over; a burst is contiguous in that order *)
Bit(o, b) == (o[(b \div 8) + 1] \div (2 ^ (b % 8))) % 2
FlipSet(o, B) == [i \in 1..Len(o) |-> o[i] ^^ (LET bits == {b \in B : b \div 8 = i - 1}
                                               IN IF bits = {} THEN 0 ELSE
                                                  LET RECURSIVE Sum(_)
                                                      Sum(S) == IF S = {} THEN 0 ELSE LET x == CHOOSE y \in S : TRUE IN 2 ^ (x % 8) + Sum(S \ {x})
                                                  IN Sum(bits))]
NBits(o) == 8 * Len(o)
(* burst of length len starting at bit s with inner pattern number p (0 .. 2^(len-2)-1): first and last bit always hit *)
(* checksum-homogeneous regions of a serial frame (octet index, 0-based): 0 = the twelve header octets, 1 = header
   checksum field, 2 = payload checksum field, 3 = payload.  The burst guarantee of CRC-16 holds for bursts that stay
   inside one region; the checksum fields are transmitted most significant octet first, so a burst that crosses from
   the data into "its" checksum field (or from a checksum field into the next region) is not contiguous in the order
   the reflected CRC is defined over and is NOT guaranteed to be caught - see DESIGN.md section 7 (open finding). *)
RegionOf(o, k) == LET f == Fields(o)
                      hl == HeaderLen(f.opts)
                  IN IF k < 12 THEN 0 ELSE IF k < 14 THEN 1 ELSE IF k < hl THEN 2 ELSE 3
SameRegion(o, s, len) == RegionOf(o, s \div 8) = RegionOf(o, (s + len - 1) \div 8)
BurstBits(s, len, p) == {s, s + len - 1} \cup {s + k : k \in {j \in 1..len - 2 : (p \div (2 ^ (j - 1))) % 2 = 1}}

Init == phase \in {<<"b", kind, f>> : kind \in {"one", "two", "burst", "cut"}, f \in 1..Len(Corpus)}
Next == /\ phase[1] = "b"
        /\ LET o == Corpus[phase[3]]
           IN \/ phase[2] = "one" /\ \E b \in 0..NBits(o) - 1 : phase' = <<"c", phase[3], {b}>>
              \/ phase[2] = "two" /\ phase[3] \in TwoBitFrames /\ \E a \in 16..NBits(o) - 1, b \in 16..NBits(o) - 1 : a < b /\ phase' = <<"c", phase[3], {a, b}>>
              \/ phase[2] = "burst" /\ \E len \in 2..MaxBurst : \E s \in 16..NBits(o) - len, p \in 0..(2 ^ (len - 2)) - 1 :
                    SameRegion(o, s, len) /\ phase' = <<"c", phase[3], BurstBits(s, len, p)>>
              \/ phase[2] = "cut" /\ \E k \in 0..Len(o) + 3 : phase' = <<"t", phase[3], k>>
Spec == Init /\ [][Next]_phase

Corrupted == IF phase[1] = "c" THEN FlipSet(Corpus[phase[2]], phase[3])
             ELSE IF phase[3] <= Len(Corpus[phase[2]]) THEN Take(Corpus[phase[2]], phase[3])
             ELSE Corpus[phase[2]] \o Fill(phase[3] - Len(Corpus[phase[2]]), 85)
NeverOk == (phase[1] \in {"c", "t"} /\ ~(phase[1] = "t" /\ phase[3] = Len(Corpus[phase[2]]))) => C_OK \notin Classes(Corrupted)
(* E1: a deterministic sample of the cases (every single-bit error, every truncation, one burst in EmitEvery) is emitted
   as an rx event with the set of allowed observations, and replayed on the real receiver *)
Mem16Of(o) == Has(Fields(o).opts, O_WS16)
Sampled == \/ phase[1] = "t"
           \/ phase[1] = "c" /\ (Cardinality(phase[3]) = 1 \/ (LET RECURSIVE Sum(_)
                                                                     Sum(S) == IF S = {} THEN 0 ELSE LET x == CHOOSE y \in S : TRUE IN x + Sum(S \ {x})
                                                                 IN Sum(phase[3]) % EmitEvery = 0))
EmitCases == (phase[1] \in {"c", "t"} /\ Sampled) =>
    LET o == Corpus[phase[2]]
        cfg == [tr |-> 0, mem16 |-> Mem16Of(o), cap |-> 192]
        w == Wire(0, Corrupted)
        alts == RxAllowedFor(cfg, FALSE, 0, <<0, 0>>, <<>>, w)
    IN PrintT("C;;rx " \o Join(<<1, 0, IF cfg.mem16 THEN 1 ELSE 0, 192, 0, 0, 0, 0, 0, Len(w)>> \o w) \o " | " \o JoinAlts(SetToSeq(alts)))
CorpusOk == \A i \in 1..Len(Corpus) : Classes(Corpus[i]) = {C_OK}
ASSUME CorpusOk
=============================================================================
