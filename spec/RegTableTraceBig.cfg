SPECIFICATION TSpec
INVARIANT ConstraintInv
PROPERTIES RefusedUnchanged SetGetRoundTrip
POSTCONDITION Accepted
CHECK_DEADLOCK FALSE
