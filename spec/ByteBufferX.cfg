SPECIFICATION SpecX
CONSTANTS
  MaxSize = 3
  Alphabet = {1, 2}
VIEW View
INVARIANT BoundsInv
CONSTRAINT EmitInit
ACTION_CONSTRAINT EmitAll
CHECK_DEADLOCK FALSE
