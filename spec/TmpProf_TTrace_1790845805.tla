---- MODULE TmpProf_TTrace_1790845805 ----
EXTENDS Sequences, TLCExt, Toolbox, Naturals, TLC, TmpProf

_expression ==
    LET TmpProf_TEExpression == INSTANCE TmpProf_TEExpression
    IN TmpProf_TEExpression!expression
----

_trace ==
    LET TmpProf_TETrace == INSTANCE TmpProf_TETrace
    IN TmpProf_TETrace!trace
----

_inv ==
    ~(
        TLCGet("level") = Len(_TETrace)
        /\
        ev = ()
        /\
        touched = ()
        /\
        inited = ()
        /\
        d = ()
        /\
        mem = ()
    )
----

_init ==
    /\ inited = _TETrace[1].inited
    /\ d = _TETrace[1].d
    /\ ev = _TETrace[1].ev
    /\ mem = _TETrace[1].mem
    /\ touched = _TETrace[1].touched
----

_next ==
    /\ \E i,j \in DOMAIN _TETrace:
        /\ \/ /\ j = i + 1
              /\ i = TLCGet("level")
        /\ inited  = _TETrace[i].inited
        /\ inited' = _TETrace[j].inited
        /\ d  = _TETrace[i].d
        /\ d' = _TETrace[j].d
        /\ ev  = _TETrace[i].ev
        /\ ev' = _TETrace[j].ev
        /\ mem  = _TETrace[i].mem
        /\ mem' = _TETrace[j].mem
        /\ touched  = _TETrace[i].touched
        /\ touched' = _TETrace[j].touched

\* Uncomment the ASSUME below to write the states of the error trace
\* to the given file in Json format. Note that you can pass any tuple
\* to `JsonSerialize`. For example, a sub-sequence of _TETrace.
    \* ASSUME
    \*     LET J == INSTANCE Json
    \*         IN J!JsonSerialize("TmpProf_TTrace_1790845805.json", _TETrace)

=============================================================================

 Note that you can extract this module `TmpProf_TEExpression`
  to a dedicated file to reuse `expression` (the module in the 
  dedicated `TmpProf_TEExpression.tla` file takes precedence 
  over the module `TmpProf_TEExpression` below).

---- MODULE TmpProf_TEExpression ----
EXTENDS Sequences, TLCExt, Toolbox, Naturals, TLC, TmpProf

expression == 
    [
        \* To hide variables of the `TmpProf` spec from the error trace,
        \* remove the variables below.  The trace will be written in the order
        \* of the fields of this record.
        inited |-> inited
        ,d |-> d
        ,ev |-> ev
        ,mem |-> mem
        ,touched |-> touched
        
        \* Put additional constant-, state-, and action-level expressions here:
        \* ,_stateNumber |-> _TEPosition
        \* ,_initedUnchanged |-> inited = inited'
        
        \* Format the `inited` variable as Json value.
        \* ,_initedJson |->
        \*     LET J == INSTANCE Json
        \*     IN J!ToJson(inited)
        
        \* Lastly, you may build expressions over arbitrary sets of states by
        \* leveraging the _TETrace operator.  For example, this is how to
        \* count the number of times a spec variable changed up to the current
        \* state in the trace.
        \* ,_initedModCount |->
        \*     LET F[s \in DOMAIN _TETrace] ==
        \*         IF s = 1 THEN 0
        \*         ELSE IF _TETrace[s].inited # _TETrace[s-1].inited
        \*             THEN 1 + F[s-1] ELSE F[s-1]
        \*     IN F[_TEPosition - 1]
    ]

=============================================================================



Parsing and semantic processing can take forever if the trace below is long.
 In this case, it is advised to uncomment the module below to deserialize the
 trace from a generated binary file.

\*
\*---- MODULE TmpProf_TETrace ----
\*EXTENDS IOUtils, TLC, TmpProf
\*
\*trace == IODeserialize("TmpProf_TTrace_1790845805.bin", TRUE)
\*
\*=============================================================================
\*

---- MODULE TmpProf_TETrace ----
EXTENDS TLC, TmpProf

trace == 
    <<
    ([ev |-> [a |-> <<>>, o |-> <<>>, op |-> "boot"],touched |-> {},inited |-> FALSE,d |-> <<>>,mem |-> <<>>]),
    ([ev |-> ,touched |-> ,inited |-> ,d |-> ,mem |-> ])
    >>
----


=============================================================================

---- CONFIG TmpProf_TTrace_1790845805 ----

INVARIANT
    _inv

CHECK_DEADLOCK
    \* CHECK_DEADLOCK off because of PROPERTY or INVARIANT above.
    FALSE

INIT
    _init

NEXT
    _next

CONSTANT
    _TETrace <- _trace

ALIAS
    _expression
=============================================================================
\* Generated on Thu Oct 01 09:10:07 UTC 2026