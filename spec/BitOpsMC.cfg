SPECIFICATION Spec
INVARIANT CaseInv
CONSTRAINT EmitCases
CHECK_DEADLOCK FALSE
