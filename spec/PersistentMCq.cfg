SPECIFICATION Spec
CONSTANTS
  Places = {0, 1}
  Sizes = {1, 2, 3}
  Algs = {1, 2, 3}
  AuxSizes = {9999, 9998, 0, 1, 2, 4}
  Octets = {0, 255}
  MSize = 9
  MaxDepth = 3
VIEW View
PROPERTIES StoreThenValid FetchReturnsStored AccessesInsideRegion PartBeyondSizeRefusedUntouched ResetFillsRegion AlterationDetected
CONSTRAINT Depth
CONSTRAINT EmitInit
ACTION_CONSTRAINT EmitAll
CHECK_DEADLOCK FALSE
