SPECIFICATION Spec
CONSTANTS
  Lens = {1, 2, 3, 4}
  PosVals = {0, 1, 8, 1000000}
  NegVals = {1, 7}
  MaxHist = 5
VIEW View
INVARIANTS WindowIsTheRecentPast AvgWithinWindow AvgExact MedianSplits MinValuesMonotone ConstantInput
CONSTRAINT EmitInit
ACTION_CONSTRAINT EmitAll
CHECK_DEADLOCK FALSE
