---------------------------- MODULE RegTableTrace ----------------------------
(* E2 for C01-C05: recorded executions of the real register table - systematic small-scope families generated
   by the checks (every window position, every alignment, every handle ...) and random histories on random
   tables - validated step by step against RegTable.tla.  Each logged observation must be one of the
   observations the specification allows for that call in the current model state (R4).            *)
EXTENDS RegTable, Json, IOUtils
TraceLog == ndJsonDeserialize(IOEnv.TRACE)
VARIABLE l
e == TraceLog[l]
TInitS == Init /\ l = 1
Restart == d' = <<>> /\ inited' = FALSE /\ mem' = <<>> /\ touched' = {} /\ ev' = [op |-> "@", a |-> <<>>, o |-> <<>>, alts |-> {<<>>}]
V(ty, w4) == LastN(w4, Size(ty))
Step == CASE e.op = "@" -> Restart
          [] e.op = "tinit" -> TInit(Unflatten(e.a))
          [] e.op = "set" -> Set(e.a[1], e.a[3], V(e.a[3], SubSeq(e.a, 4, 7)), e.a[2])
          [] e.op = "get" -> Get(e.a[1])
          [] e.op = "bitset" -> Bit(e.a[1], e.a[2], V(e.a[2], SubSeq(e.a, 3, 6)), TRUE)
          [] e.op = "bitclr" -> Bit(e.a[1], e.a[2], V(e.a[2], SubSeq(e.a, 3, 6)), FALSE)
          [] e.op = "bwrite" -> BlockWrite(e.a[1], Drop(e.a, 2))
          [] e.op = "bread" -> BlockRead(e.a[1], e.a[2])
          [] e.op = "foreach" -> Foreach(e.a[1], e.a[2], Drop(e.a, 3))
          [] e.op = "sanitise" -> Sanitise
          [] e.op = "corrupt" -> Corrupt(e.a[1], e.a[2])
          [] OTHER -> FALSE
TNext == /\ l <= Len(TraceLog) /\ l' = l + 1 /\ Step
         /\ (e.op # "@" => e.o \in ev'.alts /\ e.asan = 0)
TSpec == TInitS /\ [][TNext]_<<vars, ev, l>>
(* constraints hold in every state reached by checked operations; corruption is flagged by the driver *)
Dirty == \E k \in 1..(l - 1) : TraceLog[k].op = "corrupt" /\ \A j \in (k + 1)..(l - 1) : TraceLog[j].op \notin {"sanitise", "tinit", "@"}
ConstraintInv == (inited /\ ~Dirty) => ConstrainedOK(d, mem)
Accepted == LET n == TLCGet("stats").diameter - 1
            IN PrintT("L;;" \o ToString(n)) /\ n = Len(TraceLog)
=============================================================================
