---------------------------- MODULE RegTableTrace ----------------------------
(* E2 for C01-C05: recorded executions of the real register table - systematic small-scope families generated
   by the checks (every window position, every alignment, every handle ...) and random histories on random
   tables - validated step by step against RegTable.tla.  Each logged observation must be one of the
   observations the specification allows for that call in the current model state (R4).            *)
EXTENDS RegTable, Json, IOUtils
TraceLog == ndJsonDeserialize(IOEnv.TRACE)
VARIABLES l, dirty    \* dirty: storage was modified out of band / by the unchecked variant since the last sanitise
e == TraceLog[l]
TInitS == Init /\ l = 1 /\ dirty = FALSE
Restart == d' = <<>> /\ inited' = FALSE /\ mem' = <<>> /\ touched' = {} /\ ev' = [op |-> "@", a |-> <<>>, o |-> <<>>, alts |-> {<<>>}]
(* The address space of RegTable.tla is translation invariant (nothing in it depends on absolute addresses).  The harness
   exploits that: after  abase hi lo  it adds the 32-bit base to every area base, register address and request address
   it hands to the library and subtracts it from every address the library reports, so the same model decides tables
   that straddle 2^16, 2^31 or end just below 2^32.  (No area reaches 2^32 itself and no request wraps.)     *)
Rebase == UNCHANGED vars /\ ev' = [op |-> "abase", a |-> e.a, o |-> <<0>>, alts |-> {<<0>>}]
(* tinitbig n be: a table the harness builds itself - one memory-backed area [0, n) with n u16 registers, register j at address j
   with default (7 j) mod 2^16: more registers than a 16-bit handle can name.  Well-formed by construction. *)
BigTable(n, b) == [be |-> b,
                   areas |-> <<[base |-> 0, size |-> n, rd |-> 1, wr |-> 1, skip |-> 0, hasw |-> 1, kind |-> 0]>>,
                   regs |-> [j \in 1..n |-> [ty |-> 0, addr |-> j - 1, ck |-> 0, lo |-> <<0>>, hi |-> <<0>>, def |-> <<((j - 1) * 7) % 65536>>]]]
TInitBig(n, b) == /\ d' = BigTable(n, b) /\ touched' = {} /\ inited' = TRUE /\ mem' = <<[j \in 1..n |-> ((j - 1) * 7) % 65536]>>
                  /\ ev' = [op |-> "tinitbig", a |-> <<n, b>>, o |-> <<0, 0, n - 1, n>>, alts |-> {<<0, 0, n - 1, n>>}]
(* tmacro <description>: the harness initialises a table that is written with the library's public construction macros (MEMORY_AREA,
   CUSTOM_AREA_RO, REG_S32RANGE, ...); the event's arguments repeat that description.  Same as tinit otherwise. *)
TMacro(t) == TInit(t) /\ TRUE
V(ty, w4) == LastN(w4, Size(ty))
Step == CASE e.op = "@" -> Restart
          [] e.op = "abase" -> Rebase
          [] e.op = "tinit" -> TInit(Unflatten(e.a))
          [] e.op = "tinitbig" -> TInitBig(e.a[1], e.a[2])
          [] e.op = "tmacro" -> TMacro(Unflatten(e.a))
          [] e.op = "set" -> Set(e.a[1], e.a[3], V(e.a[3], SubSeq(e.a, 4, 7)), e.a[2])
          [] e.op = "get" -> Get(e.a[1])
          [] e.op = "sweep16" -> Sweep16(e.a[1], e.a[2])
          [] e.op = "bitset" -> Bit(e.a[1], e.a[2], V(e.a[2], SubSeq(e.a, 3, 6)), TRUE)
          [] e.op = "bitclr" -> Bit(e.a[1], e.a[2], V(e.a[2], SubSeq(e.a, 3, 6)), FALSE)
          [] e.op = "bwrite" -> BlockWrite(e.a[1], Drop(e.a, 2))
          [] e.op = "bread" -> BlockRead(e.a[1], e.a[2])
          [] e.op = "foreach" -> Foreach(e.a[1], e.a[2], Drop(e.a, 3))
          [] e.op = "sanitise" -> Sanitise
          [] e.op = "corrupt" -> Corrupt(e.a[1], e.a[2])
          [] e.op = "pvalidate" -> PValidate
          [] e.op = "default" -> Default(e.a[1])
          [] e.op = "compare" -> Compare(e.a[1], e.a[2])
          [] e.op = "mcopy" -> MCopy(e.a[1], e.a[2])
          [] e.op = "userinit" -> UserInit(Drop(e.a, 1))
          [] e.op = "hexstr" -> HexStr(e.a[1], Drop(e.a, 2))
          [] OTHER -> FALSE
Unchecked(x) == x.op \in {"corrupt", "mcopy", "hexstr"} \/ (x.op \in {"set", "sweep16"} /\ x.a[2] = 1)       \* out-of-band or unchecked modification
TNext == /\ l <= Len(TraceLog) /\ l' = l + 1 /\ Step
         /\ dirty' = (IF e.op \in {"sanitise", "tinit", "tinitbig", "tmacro", "@"} THEN FALSE ELSE dirty \/ Unchecked(e))
         /\ (e.op # "@" => e.o \in ev'.alts /\ e.asan = 0)
TSpec == TInitS /\ [][TNext]_<<vars, ev, l, dirty>>
(* constraints hold in every state reached by checked operations; corruption is flagged by the driver *)
ConstraintInv == (inited /\ ~dirty) => ConstrainedOK(d, mem)
Accepted == LET n == TLCGet("stats").diameter - 1
            IN PrintT("L;;" \o ToString(n)) /\ n = Len(TraceLog)
=============================================================================
