------------------------------- MODULE Strl -------------------------------
(* The bounded string functions the library brings along for hosts without them (src/compat: strlcpy, strlcat,
   strnlen; extra X10).  Memory is a sequence of octets, a C string in it ends at the first 0.

   strlcpy(dst, src, dsize)  copies at most dsize-1 characters and terminates (unless dsize = 0); returns the length
                             of src: truncation iff the result >= dsize.
   strlcat(dst, src, dsize)  appends to the string in dst; a dst without terminator within dsize is left alone
                             (result dsize + length of src); otherwise terminates; returns the length it tried to make.
   strnlen(s, maxlen)        the length of s, but never looks at more than maxlen octets.
   None of them writes outside dst[0 .. dsize-1].                                                                  *)
EXTENDS Emit, SequencesExt, TLC

VARIABLES phase

CLen(mem) == IF \E k \in 1..Len(mem) : mem[k] = 0 THEN (CHOOSE k \in 1..Len(mem) : mem[k] = 0 /\ \A j \in 1..k - 1 : mem[j] # 0) - 1
             ELSE Len(mem)                                                             \* no terminator: all of it
CStr(mem) == Take(mem, CLen(mem))
Put(mem, at, s) == [k \in 1..Len(mem) |-> IF k > at /\ k <= at + Len(s) THEN s[k - at] ELSE mem[k]]   \* s into mem behind position at (0-based)

(* the functions: <<result, memory afterwards>> *)
Strlcpy(dst, src, dsize) ==
    IF dsize = 0 THEN <<Len(src), dst>>
    ELSE LET k == MinOf(Len(src), dsize - 1) IN <<Len(src), Put(dst, 0, Take(src, k) \o <<0>>)>>
Strlcat(dst, src, dsize) ==
    LET dlen == CLen(Take(dst, dsize))
    IN IF dlen = dsize THEN <<dsize + Len(src), dst>>
       ELSE LET k == MinOf(Len(src), dsize - dlen - 1) IN <<dlen + Len(src), Put(dst, dlen, Take(src, k) \o <<0>>)>>
Strnlen(mem, maxlen) == CLen(Take(mem, maxlen))

Chars == {97, 98}
Mems == SeqsUpTo(Chars \cup {0}, 4)
Srcs == SeqsUpTo(Chars, 4)
Init == phase = <<"b">>
Next == /\ phase[1] = "b"
        /\ \/ \E d \in Mems, s \in Srcs, z \in 0..4 : z <= Len(d) /\ phase' = <<"cpy", d, s, z>>
           \/ \E d \in Mems, s \in Srcs, z \in 0..4 : z <= Len(d) /\ phase' = <<"cat", d, s, z>>
           \/ \E d \in Mems, m \in 0..4 : m <= Len(d) /\ phase' = <<"nlen", d, m>>
Spec == Init /\ [][Next]_phase

(* what a user relies on, stated apart from the definitions *)
Outside(before, after, dsize) == Len(after) = Len(before) /\ \A k \in dsize + 1..Len(before) : after[k] = before[k]
CaseInv ==
    /\ phase[1] = "cpy" =>
          LET d == phase[2] s == phase[3] z == phase[4] r == Strlcpy(d, s, z)
          IN /\ r[1] = Len(s)
             /\ Outside(d, r[2], z)
             /\ (z > 0 => /\ CLen(Take(r[2], z)) < z                                   \* always terminated inside dsize
                          /\ IsPrefix(CStr(r[2]), s)
                          /\ (r[1] < z <=> CStr(r[2]) = s)                             \* truncation iff result >= dsize
                          /\ (r[1] >= z => CLen(r[2]) = z - 1))                        \* and then as much as fits
             /\ (z = 0 => r[2] = d)
    /\ phase[1] = "cat" =>
          LET d == phase[2] s == phase[3] z == phase[4] r == Strlcat(d, s, z)
              had == CStr(Take(d, z))
          IN /\ Outside(d, r[2], z)
             /\ Take(r[2], Len(had)) = had                                             \* what was there stays
             /\ IF Len(had) = z THEN r[2] = d /\ r[1] = z + Len(s)                     \* no room, not even a string: untouched
                ELSE /\ r[1] = Len(had) + Len(s)
                     /\ CLen(Take(r[2], z)) < z
                     /\ IsPrefix(CStr(r[2]), had \o s)
                     /\ (r[1] < z <=> CStr(r[2]) = had \o s)
                     /\ (r[1] >= z => CLen(r[2]) = z - 1)
    /\ phase[1] = "nlen" =>
          LET d == phase[2] m == phase[3] r == Strnlen(d, m)
          IN r <= m /\ (r < m => d[r + 1] = 0) /\ \A k \in 1..r : d[k] # 0
(* copying and then appending is appending to the empty string twice: strlcat(strlcpy(a), b) = the truncated a \o b *)
CatAfterCpy == phase[1] = "cat" /\ phase[4] > 0 =>
    LET d == phase[2] s == phase[3] z == phase[4]
    IN \A a \in {x \in Srcs : Len(x) <= 2} :
          LET c == Strlcpy(d, a, z) r == Strlcat(c[2], s, z)
          IN CStr(Take(r[2], z)) = Take(a \o s, MinOf(Len(a) + Len(s), z - 1)) /\ r[1] = MinOf(Len(a), z - 1) + Len(s)

EmitCases ==
    /\ phase[1] = "cpy" => LET r == Strlcpy(phase[2], phase[3], phase[4])
                           IN EmitCase("cpy " \o Join(<<phase[4], Len(phase[2])>> \o phase[2] \o <<Len(phase[3])>> \o phase[3]) \o " | " \o Join(<<r[1]>> \o r[2]))
    /\ phase[1] = "cat" => LET r == Strlcat(phase[2], phase[3], phase[4])
                           IN EmitCase("cat " \o Join(<<phase[4], Len(phase[2])>> \o phase[2] \o <<Len(phase[3])>> \o phase[3]) \o " | " \o Join(<<r[1]>> \o r[2]))
    /\ phase[1] = "nlen" => EmitCase("nlen " \o Join(<<phase[3], Len(phase[2])>> \o phase[2]) \o " | " \o Join(<<Strnlen(phase[2], phase[3])>>))
=============================================================================
