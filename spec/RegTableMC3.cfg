SPECIFICATION MCSpec
CONSTANTS
  MaxCorrupt = 0
  BlockLens = {1, 2}
  TableIds = {1, 2, 3, 4, 5, 7}
  Reads = TRUE
  MaxLevel = 4
VIEW View
INVARIANT ConstraintInv
PROPERTIES RefusedUnchanged SanitiseRestores SetGetRoundTrip BitOpsExact InitAcceptsIffWellFormed ReadsFlat IterationExact
CONSTRAINT Bounded
CONSTRAINT EmitInit
ACTION_CONSTRAINT EmitAll
CHECK_DEADLOCK FALSE
