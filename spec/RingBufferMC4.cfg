SPECIFICATION Spec
CONSTANTS
  MaxCap = 4
  Alphabet = {1, 2}
  Types = {8, 32, 64}
VIEW View
INVARIANTS QueueRefinement Bounded ImplShape SizeEmptyFullAgree IterOldNewIsQueue IterNewOldIsReverse
PROPERTIES GetOldest PutRule RefinesAbs
CONSTRAINT EmitInit
ACTION_CONSTRAINT EmitAll
CHECK_DEADLOCK FALSE
