----------------------------- MODULE Persistent -----------------------------
(* ufw checksummed persistent storage (src/persistent-storage.c), properties C10 and C11.

   The medium is a sequence of octets (address a is medium[a+1]); an instance owns the region
   [place, place + width + N): first the checksum (width 2 or 4, host order = least significant
   octet first), then N data octets.  Everything the environment decides is an explicit action or
   argument: the configuration, out-of-band alteration of an octet (Corrupt), a medium call that
   fails or transfers short (fault), a power cut during an operation (crash), re-opening.

   Two layers:
   * functional: Region, Checksum, DataImage, StoredSum, ValidateF, and the post-medium of each
     complete operation.  The order and chunking of medium accesses is NOT prescribed (R4).
   * operational (for the crash/fault statements): an operation under an armed crash leaves the
     medium in ANY state that differs from the old one only inside the region (the harness logs the
     actual image); what C11 demands is then evaluated on that image.

   Observation layout (harness/persist.c):
      rc oob struck  <medium image, for operations that write>  |  <data, for fetches>
   rc: 0 success, 1 invalid data, 2 I/O error, 3 address out of range.  oob: number of medium accesses
   that left the region (must be 0).  struck: 1 iff an armed fault/crash was triggered.             *)
EXTENDS Emit, CrcOps

CONSTANTS Places, Sizes, Algs, AuxSizes,   \* configuration grid of the model
          Octets,                          \* data alphabet of the model
          MSize,                           \* medium size used by the model (harness: cfg argument)
          MaxDepth                         \* exploration depth bound of the model-checking configuration
GUARD == 238

VARIABLES cfg, medium, armed, last, ev
vars == <<cfg, medium, armed, last>>
base == <<cfg, medium, last>>   \* the actions below do not mention armed; Next / the trace spec do
\* cfg  = [place, n, alg, aux, msize]; alg 1 = 16-bit trivial sum, 2 = CRC-16/ARC, 3 = 32-bit sum;
\* aux = size of the auxiliary buffer, 9999 = none configured, 9998 = a NULL buffer configured with a non-zero size (as good as none)
\* armed = <<>> | <<"fault", k, kind>> | <<"crash", cut, torn>>
\* last  = what C11 needs to know about the most recent store: [prev, new, whole] or <<>>

OK == 0
INVALID == 1
IOERR == 2
RANGE == 3

Width(c) == IF c.alg = 3 THEN 4 ELSE 2
DataAddr(c) == c.place + Width(c)
RegionLo(c) == c.place
RegionHi(c) == c.place + Width(c) + c.n          \* exclusive
At(m, a) == m[a + 1]
Slice(m, a, k) == SubSeq(m, a + 1, a + k)
Overlay(m, a, d) == [i \in 1..Len(m) |-> IF i > a /\ i <= a + Len(d) THEN d[i - a] ELSE m[i]]

(* the three configured algorithms; all are "chunkable": Sum(init, a \o b) = Sum(Sum(init, a), b) *)
TrivialSum(init, s) == FoldLeft(LAMBDA acc, d : (acc + d) % 65536, init, s)
Sum32(init, s) == FoldLeft(LAMBDA acc, d : (acc * 3 + d) % 16777213, init, s)
InitOf(c) == CASE c.alg = 3 -> 7 [] c.alg = 2 -> 7439 [] OTHER -> 0        \* initial values configured by the harness (alg 1 is the built-in default)
Checksum(c, img) == CASE c.alg = 1 -> TrivialSum(InitOf(c), img)
                      [] c.alg = 2 -> Buffer(InitOf(c), img)
                      [] OTHER -> Sum32(InitOf(c), img)
\* host-order (little-endian) image of a checksum value
SumImage(c, v) == IF Width(c) = 2 THEN <<v % 256, v \div 256>>
                  ELSE <<v % 256, (v \div 256) % 256, (v \div 65536) % 256, v \div 16777216>>
DataImage(c, m) == Slice(m, DataAddr(c), c.n)
StoredSum(c, m) == Slice(m, c.place, Width(c))
ValidateF(c, m) == IF StoredSum(c, m) = SumImage(c, Checksum(c, DataImage(c, m))) THEN OK ELSE INVALID

(* part access (off, len): refused without touching the medium when it reaches beyond the data;
   off < 0 encodes the size_t value 2^64 + off (arithmetic-overflow pairs) *)
PartOk(c, off, len) == off >= 0 /\ len >= 0 /\ off <= c.n /\ len <= c.n - off
StoreAll(c, m, img) == Overlay(Overlay(m, DataAddr(c), img), c.place, SumImage(c, Checksum(c, img)))
StorePart(c, m, off, d) == LET m1 == Overlay(m, DataAddr(c) + off, d)
                           IN Overlay(m1, c.place, SumImage(c, Checksum(c, DataImage(c, m1))))
ResetF(c, m, fill) == Overlay(m, c.place, Fill(Width(c) + c.n, fill))
OutsideUnchanged(c, m1, m2) == /\ Len(m1) = Len(m2)
                               /\ \A i \in 1..Len(m1) : (i <= RegionLo(c) \/ i > RegionHi(c)) => m1[i] = m2[i]

---------------------------------------------------------------------------
Init == cfg = <<>> /\ medium = <<>> /\ armed = <<>> /\ last = <<>> /\ ev = Boot

Configure(msize, place, n, alg, aux) ==
    /\ cfg' = [place |-> place, n |-> n, alg |-> alg, aux |-> aux, msize |-> msize]
    /\ medium' = Fill(msize, GUARD) /\ last' = <<>>
    /\ ev' = Ev("cfg", <<msize, place, n, alg, aux>>, <<0, 0, 0>> \o Fill(msize, GUARD))

(* normal (unarmed) operations *)
Store(img) == /\ cfg # <<>> /\ Len(img) = cfg.n
              /\ medium' = StoreAll(cfg, medium, img)
              /\ last' = [prev |-> DataImage(cfg, medium), new |-> img]
              /\ UNCHANGED cfg
              /\ ev' = Ev("store", <<Len(img)>> \o img, <<OK, 0, 0>> \o medium')
StoreP(off, d) == /\ cfg # <<>>
                  /\ IF PartOk(cfg, off, Len(d))
                     THEN /\ medium' = StorePart(cfg, medium, off, d)
                          /\ last' = [prev |-> DataImage(cfg, medium), new |-> DataImage(cfg, medium')]
                          /\ ev' = Ev("storep", <<off, Len(d)>> \o d, <<OK, 0, 0>> \o medium')
                     ELSE /\ UNCHANGED <<medium, last>>
                          /\ ev' = Ev("storep", <<off, Len(d)>> \o d, <<RANGE, 0, 0>> \o medium)
                  /\ UNCHANGED cfg
Validate == /\ cfg # <<>> /\ UNCHANGED base
            /\ ev' = Ev("validate", <<>>, <<ValidateF(cfg, medium), 0, 0>>)
Fetch == /\ cfg # <<>> /\ UNCHANGED base
         /\ ev' = Ev("fetch", <<>>, <<OK, 0, 0>> \o DataImage(cfg, medium))
FetchP(off, len) == /\ cfg # <<>> /\ UNCHANGED base
                    /\ ev' = Ev("fetchp", <<off, len>>,
                                IF PartOk(cfg, off, len) THEN <<OK, 0, 0>> \o Slice(medium, DataAddr(cfg) + off, len)
                                ELSE <<RANGE, 0, 0>>)
Reset(fill) == /\ cfg # <<>>
               /\ medium' = ResetF(cfg, medium, fill) /\ last' = <<>> /\ UNCHANGED cfg
               /\ ev' = Ev("reset", <<fill>>, <<OK, 0, 0>> \o medium')
Corrupt(a, val) == /\ cfg # <<>> /\ a \in RegionLo(cfg)..RegionHi(cfg) - 1
                   /\ medium' = Overlay(medium, a, <<val>>) /\ last' = <<>> /\ UNCHANGED cfg
                   /\ ev' = Ev("corrupt", <<a, val>>, <<0, 0, 0>> \o medium')
Reopen == /\ cfg # <<>> /\ UNCHANGED base
          /\ ev' = Ev("reopen", <<>>, <<0, 0, 0>>)

---------------------------------------------------------------------------
(* C10 on the model (action properties over the ghost event) *)
rc(e) == e.o[1]
StoreThenValid == [][ev'.op \in {"store", "storep"} /\ rc(ev') = OK => ValidateF(cfg', medium') = OK]_<<vars, ev>>
FetchReturnsStored ==
    [][/\ ev'.op = "store" => DataImage(cfg', medium') = Drop(ev'.a, 1)
       /\ ev'.op = "storep" /\ rc(ev') = OK =>
             DataImage(cfg', medium') = Overlay(DataImage(cfg, medium), ev'.a[1], Drop(ev'.a, 2))]_<<vars, ev>>
AccessesInsideRegion == [][cfg # <<>> /\ cfg' = cfg => OutsideUnchanged(cfg, medium, medium')]_<<vars, ev>>
PartBeyondSizeRefusedUntouched ==
    [][ev'.op \in {"storep", "fetchp"} /\ ~PartOk(cfg, ev'.a[1], ev'.a[2]) => rc(ev') = RANGE /\ medium' = medium]_<<vars, ev>>
ResetFillsRegion == [][ev'.op = "reset" => Slice(medium', cfg.place, Width(cfg) + cfg.n) = Fill(Width(cfg) + cfg.n, ev'.a[1])]_<<vars, ev>>
AlterationDetected ==
    [][ev'.op = "corrupt" /\ ValidateF(cfg, medium) = OK =>
          (ValidateF(cfg, medium') = INVALID
             <=> StoredSum(cfg, medium') # SumImage(cfg, Checksum(cfg, DataImage(cfg, medium'))))]_<<vars, ev>>
(* the checksum does not depend on how reads are chunked *)
Chunkable == \A c \in {[place |-> 0, n |-> 4, alg |-> a, aux |-> 0, msize |-> 10] : a \in {1, 2, 3}} :
               \A s \in SeqsUpTo({0, 1, 255}, 4) : \A k \in 0..Len(s) :
                  LET f(init, x) == CASE c.alg = 1 -> TrivialSum(init, x) [] c.alg = 2 -> Buffer(init, x) [] OTHER -> Sum32(init, x)
                  IN f(InitOf(c), s) = f(f(InitOf(c), Take(s, k)), Drop(s, k))
ASSUME Chunkable

---------------------------------------------------------------------------
Images(n) == {s \in SeqsUpTo(Octets, n) : Len(s) = n}
BaseNext ==
    \/ cfg = <<>> /\ \E p \in Places, n \in Sizes, a \in Algs, x \in AuxSizes : (x >= 9998 \/ x <= n + 1) /\ Configure(MSize, p, n, a, x)
    \/ (cfg # <<>> /\ \E img \in Images(cfg.n) : Store(img))
    \/ (cfg # <<>> /\ \E off \in {-1, -2} \cup 0..cfg.n + 1, d \in SeqsUpTo(Octets, MinOf(cfg.n + 1, 2)) : StoreP(off, d))
    \/ Validate \/ Fetch
    \/ (cfg # <<>> /\ \E off \in {-1, -2} \cup 0..cfg.n + 1, len \in 0..cfg.n + 1 : FetchP(off, len))
    \/ (\E f \in {0, 255} : Reset(f))
    \/ (cfg # <<>> /\ \E a \in RegionLo(cfg)..RegionHi(cfg) - 1, val \in {0, 1} : Corrupt(a, (At(medium, a) + 1 + val * 127) % 256))
Next == BaseNext /\ UNCHANGED armed
Spec == Init /\ [][Next]_<<vars, ev>>

Depth == TLCGet("level") <= MaxDepth
\* (ToString of a record is not canonical in TLC - field order varies - so keys are built from tuples)
CfgKey(c) == IF c = <<>> THEN <<>> ELSE <<c.place, c.n, c.alg, c.aux, c.msize>>
Key == ToString(<<CfgKey(cfg), medium>>)
View == <<cfg, medium>>
EmitAll == EmitEdge(Key, ToString(<<CfgKey(cfg'), medium'>>), ev')
EmitInit == ev.op = "boot" => EmitInitial(Key)
=============================================================================
