------------------------------- MODULE Crc16 -------------------------------
(* CRC-16/ARC (src/crc-16-arc.c), property C16.  Polynomial 0x8005, reflected (0xA001), the initial
   value is whatever the caller passes, no final xor.

   The checksum is a state machine: state crc, action StepOctet(d).  The bitwise definition is the
   reference; the table form and the "xor-then-step-zero" law are checked against it on every
   (state, octet) pair the configuration enumerates, and the law is what lets the harness check the
   library on all 2^24 pairs against the 65536-entry table  E0[c] = Step(c, 0)  that TLC emits.    *)
EXTENDS Emit, CrcOps

CONSTANTS Octets,      \* octets enumerated by the model (0..255 in the thorough configuration)
          HostLE       \* 1 iff the host stores the low octet of a 16-bit word first

VARIABLES crc, ev

RECURSIVE Image(_)
Image(ws) == IF ws = <<>> THEN <<>>
             ELSE (IF HostLE = 1 THEN <<Head(ws) % 256, Head(ws) \div 256>>
                   ELSE <<Head(ws) \div 256, Head(ws) % 256>>) \o Image(Tail(ws))
BufferU16(c, ws) == Buffer(c, Image(ws))

Init == crc \in 0..65535 /\ ev = Boot
StepOctet(d) == crc' = Step(crc, d) /\ ev' = Ev("step", <<crc, d>>, <<crc'>>)
Next == \E d \in Octets : StepOctet(d)
Spec == Init /\ [][Next]_<<crc, ev>>

TypeOK == crc \in 0..65535
TableMatchesBitwise == [][StepT(crc, ev'.a[2]) = crc']_<<crc, ev>>
StepIsXorThenStepZero == [][Step(crc ^^ ev'.a[2], 0) = crc']_<<crc, ev>>

(* algebraic facts about buffers, checked on a small family (ASSUME-style, evaluated once) *)
SmallBufs == SeqsUpTo({0, 1, 128, 255}, 4)
ConcatenationLaw == \A s \in SmallBufs : \A k \in 0..Len(s) : \A c \in {0, 1, 65535, 47933} :
                        Buffer(c, s) = Buffer(Buffer(c, Take(s, k)), Drop(s, k))
CheckValue == Buffer(0, <<49, 50, 51, 52, 53, 54, 55, 56, 57>>) = 47933   \* "123456789" -> 0xBB3D
U16EqualsOctetImage == \A ws \in SeqsUpTo({0, 1, 258, 65535}, 3) :
                          BufferU16(0, ws) = Buffer(0, Image(ws)) /\ Len(Image(ws)) = 2 * Len(ws)
ASSUME ConcatenationLaw /\ CheckValue /\ U16EqualsOctetImage

View == crc
EmitTable == ev.op = "boot" => EmitCase("t " \o ToString(crc) \o " " \o ToString(Step(crc, 0)))
=============================================================================
