SPECIFICATION Spec
CONSTANT MaxN = 1
INVARIANT C06Holds
CONSTRAINT EmitCases
CHECK_DEADLOCK FALSE
