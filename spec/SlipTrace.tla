------------------------------ MODULE SlipTrace ------------------------------
(* E2: recorded run/enc events of the real SLIP code (full octet alphabet, long payloads) are
   recomputed from Slip.tla; for plain runs of encoder output the delivered frames are also checked. *)
EXTENDS Slip, Json, IOUtils
TraceLog == ndJsonDeserialize(IOEnv.TRACE)
VARIABLE l
e == TraceLog[l]
TInit == phase = <<"trace">> /\ ev = Boot /\ l = 1
P == [sof |-> e.a[1], errpos |-> e.a[2], errcode |-> e.a[3], sinkat |-> e.a[4], sinkcode |-> e.a[5],
      inp |-> Drop(e.a, 6)]
RunOk == e.o = RunObs(P) /\ (P.errpos = 0 /\ P.sinkat = 0 /\ P.sof = 0 => ResyncClassicOK(P.inp))
EncOk == LET r == EncRun(e.a[1], Drop(e.a, 6), e.a[2], e.a[4])
             code == IF r.rc = SRCERR THEN e.a[3] ELSE IF r.rc = SINKERR THEN e.a[5] ELSE r.rc       \* the endpoint's own code, unchanged
         IN e.o = <<code, Len(r.out)>> \o r.out
TNext == /\ l <= Len(TraceLog) /\ l' = l + 1
         /\ CASE e.op = "@" -> TRUE
              [] e.op = "run" -> RunOk /\ e.asan = 0
              [] e.op = "enc" -> EncOk /\ e.asan = 0
              [] OTHER -> FALSE
         /\ UNCHANGED <<vars, ev>>
TSpec == TInit /\ [][TNext]_<<vars, ev, l>>
Accepted == LET k == TLCGet("stats").diameter - 1
            IN PrintT("L;;" \o ToString(k)) /\ k = Len(TraceLog)
=============================================================================
