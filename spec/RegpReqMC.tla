------------------------------ MODULE RegpReqMC ------------------------------
(* E0/E1 for C06: TLC enumerates well-formed requests (read/write x 8/16 bit) x transports x memory word sizes x
   addresses x block sizes x payloads x sequence numbers x all twelve backend verdicts, plus responses and meta
   messages as input, computes what RegpOps prescribes for the receive/process/free cycle and checks on every case:
   exactly one backend access with the request's address, size and payload iff the word size matches (none otherwise,
   none for non-requests); exactly one reply for a request (none for non-requests), of the matching response type,
   echoing sequence number and address, an acknowledgement only for verdict ACK, the 32-bit datum where the document
   prescribes one.  Every case is emitted with its allowed observations for replay on the real library.          *)
EXTENDS RegpOps, FiniteSets, TLC

CONSTANT MaxN
VARIABLE phase
Addrs == {<<0, 0>>, <<1, 2>>, <<65535, 65535>>, <<49371, 56541>>}
Seqs == {0, 65535, 49371}
Octs == {192, 219, 7}
Payloads(n) == {s \in SeqsUpTo(Octs, n) : Len(s) = n}
CAP == 192

Init == phase \in {<<"b", tr, m, ws, wr>> : tr \in {0, 1}, m \in {0, 1}, ws \in {0, 1}, wr \in {0, 1, 2}}
Next == /\ phase[1] = "b"
        /\ LET tr == phase[2]
               m == phase[3]
               ws == phase[4]
               wr == phase[5]
           IN \/ wr \in {0, 1} /\ \E a \in Addrs, n \in 0..MaxN, sq \in Seqs, vd \in 0..11, va \in {<<0, 9>>, <<65535, 192>>} :
                    \E pl \in Payloads(IF wr = 1 THEN n * (ws + 1) ELSE 0) :
                       phase' = <<"c", tr, m, vd, va, Request(tr, wr = 1, ws = 1, sq, a, n, pl)>>
              \/ wr = 2 /\ ws = 0 /\ \E ft \in {T_RRESP, T_WRESP, T_META}, meta \in {0, 1, 7} :
                    (ft = T_META => meta = 1) /\
                    phase' = <<"c", tr, m, 0, <<0, 0>>, FrameOctets(ft, Opts(tr, FALSE, meta = 7), meta, 5, <<0, 9>>, <<0, IF meta = 7 THEN 4 ELSE 0>>, IF meta = 7 THEN <<0, 0, 0, 1>> ELSE <<>>)>>
Spec == Init /\ [][Next]_phase

Cfg == [tr |-> phase[2], mem16 |-> phase[3] = 1, cap |-> CAP]
Data == <<17, 34, 51, 68, 85, 102, 119, 136>>
Allowed == RxAllowedFor(Cfg, FALSE, phase[4], phase[5], Data, Wire(phase[2], phase[6]))
(* an observation is  rc errid allocs frees badfree live ncalls <call> -7 <reply wire> *)
ReplyOf(ob) == LET i == CHOOSE k \in 1..Len(ob) : ob[k] = -7 /\ \A j \in 8..k - 1 : ob[j] # -7 IN Unframe(phase[2], Drop(ob, i))
C06Holds ==
    phase[1] = "c" =>
        LET o == phase[6]
            f == Fields(o)
            match == Has(f.opts, O_WS16) <=> Cfg.mem16
        IN \A ob \in Allowed :
              /\ ob[1] = 0 /\ ob[2] = 0 /\ ob[3] = 1 /\ ob[4] = 1 /\ ob[5] = 0 /\ ob[6] = 0      \* received fine, block released exactly once
              /\ ob[7] = (IF IsRequest(o) /\ match THEN 1 ELSE 0)                               \* exactly one access, or none
              /\ (ob[7] = 1 => SubSeq(ob, 8, 11) = <<IF f.type = T_RREQ THEN 0 ELSE 1>> \o f.addr \o <<f.bs[2]>>
                               /\ (f.type = T_WREQ => SubSeq(ob, 12, 11 + Len(PayloadOf(o))) = PayloadOf(o)))
              /\ IF ~IsRequest(o) THEN ob[Len(ob)] = -7                                          \* no reply at all
                 ELSE LET r == ReplyOf(ob)
                          g == Fields(r.frame)
                      IN /\ r.st = "ok" /\ Classes(r.frame) = {C_OK}
                         /\ g.type = f.type + 1 /\ g.sq = f.sq /\ g.addr = f.addr                \* matching type, echo
                         /\ g.meta = (IF ~match THEN EWORDSIZE ELSE phase[4])
                         /\ (g.meta = ACK /\ f.type = T_WREQ => PayloadOf(r.frame) = <<>>)
                         /\ (g.meta = ACK /\ f.type = T_RREQ => PayloadOf(r.frame) = Take(Data \o Fill(64, 225), f.bs[2] * WordSize(f.opts)))
                         /\ (WithAddress(g.meta) => PayloadOf(r.frame) = W4(phase[5]) /\ ~Has(g.opts, O_WS16))
                         /\ (WithSize(g.meta) => PayloadOf(r.frame) = W4(<<0, CAP>>))
EmitCases == phase[1] = "c" =>
    LET w == Wire(phase[2], phase[6])
    IN PrintT("C;;rx " \o Join(<<0, phase[2], phase[3], CAP, 0, phase[4]>> \o phase[5] \o <<Len(Data)>> \o Data \o <<Len(w)>> \o w)
              \o " | " \o JoinAlts(SetToSeq(Allowed)))
=============================================================================
