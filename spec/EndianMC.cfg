SPECIFICATION Spec
CONSTANTS
  HostLE = 1
INVARIANT CaseInv
CONSTRAINT EmitCases
CHECK_DEADLOCK FALSE
