-------------------------- MODULE RingBufferTrace --------------------------
(* E2: validates executions recorded from the real ring buffer against RingBuffer.tla *)
EXTENDS RingBuffer, Json, IOUtils, SequencesExt
TraceLog == ndJsonDeserialize(IOEnv.TRACE)
VARIABLE l
e == TraceLog[l]
TInit == Init /\ l = 1
Restart == cap' = 0 /\ ty' = 0 /\ head' = 0 /\ tail' = 0 /\ data' = <<>> /\ ovr' = FALSE /\ q' = <<>> /\ ev' = Boot
(* fill k base: k puts of the values (base + i) % 251, i = 0..k-1, done inside the harness (rings of more than 2^16 elements),
   observed once at the end.  Only used where all k elements still fit, so that it is the k-fold Put in closed form. *)
FillAct(k, base) ==
    LET val(i) == (base + i) % 251                                   \* i-th value, 0-based
        off(p) == (p - 1 - head + cap) % cap                         \* 1-based slot p is the off(p)-th slot written
    IN /\ cap > 0 /\ Len(q) + k <= cap /\ k > 0
       /\ q' = q \o [i \in 1..k |-> val(i - 1)]
       /\ head' = (head + k) % cap
       /\ tail' = IF tail = cap THEN head ELSE tail
       /\ data' = [p \in 1..cap |-> IF off(p) < k THEN val(off(p)) ELSE data[p]]
       /\ UNCHANGED <<cap, ty, ovr>>
       /\ ev' = Ev("fill", <<k, base>>, Obs(0, q', cap))
Step == CASE e.op = "@" -> Restart
          [] e.op = "fill" -> FillAct(e.a[1], e.a[2])
          [] e.op = "init" -> RInit(e.a[1], e.a[2])
          [] e.op = "put" -> Put(e.a[1])
          [] e.op = "get" -> Get
          [] e.op = "clear" -> Clear
          [] e.op = "override" -> Override(e.a[1])
          [] OTHER -> FALSE
TNext == /\ l <= Len(TraceLog) /\ l' = l + 1 /\ Step
         /\ e.op # "@" => (ev'.o = e.o /\ e.asan = 0)
TSpec == TInit /\ [][TNext]_<<vars, ev, l>>
Accepted == LET n == TLCGet("stats").diameter - 1
            IN PrintT("L;;" \o ToString(n)) /\ n = Len(TraceLog)
=============================================================================
