-------------------------- MODULE RingBufferTrace --------------------------
(* E2: validates executions recorded from the real ring buffer against RingBuffer.tla *)
EXTENDS RingBuffer, Json, IOUtils
TraceLog == ndJsonDeserialize(IOEnv.TRACE)
VARIABLE l
e == TraceLog[l]
TInit == Init /\ l = 1
Restart == cap' = 0 /\ ty' = 0 /\ head' = 0 /\ tail' = 0 /\ data' = <<>> /\ ovr' = FALSE /\ q' = <<>> /\ ev' = Boot
Step == CASE e.op = "@" -> Restart
          [] e.op = "init" -> RInit(e.a[1], e.a[2])
          [] e.op = "put" -> Put(e.a[1])
          [] e.op = "get" -> Get
          [] e.op = "clear" -> Clear
          [] e.op = "override" -> Override(e.a[1])
          [] OTHER -> FALSE
TNext == /\ l <= Len(TraceLog) /\ l' = l + 1 /\ Step
         /\ e.op # "@" => (ev'.o = e.o /\ e.asan = 0)
TSpec == TInit /\ [][TNext]_<<vars, ev, l>>
Accepted == LET n == TLCGet("stats").diameter - 1
            IN PrintT("L;;" \o ToString(n)) /\ n = Len(TraceLog)
=============================================================================
