SPECIFICATION Spec
CONSTANTS
  MaxN = 4
  MaxScript = 4
  MaxPScript = 2
INVARIANT CaseInv
CONSTRAINT EmitCases
CHECK_DEADLOCK FALSE
