SPECIFICATION Spec
CONSTANTS
  MaxSize = 6
  MaxChunks = 3
INVARIANT CaseInv
CONSTRAINT EmitCases
CHECK_DEADLOCK FALSE
