------------------------------ MODULE RegpRxMC ------------------------------
(* E0/E1 for C09: TLC enumerates receive/process/free cycles at the resource boundaries - block capacities 16..40, write
   requests whose frame length runs from below to above the capacity, read requests whose answer runs from fitting to
   not fitting, allocation failure, frames cut to every length below a header (including the empty one), units whose
   stream ends inside the frame - and checks on every outcome the specification allows:
     * the ledger is exact (every block obtained is released exactly once, nothing released twice, nothing left);
     * the backend is never asked to fill more words than fit behind a header in the block, and a write hands it exactly
       the announced block;
     * too large a frame -> receive-overflow response, too large an answer -> transmit-overflow response carrying the
       buffer size, allocation failure -> busy response, each echoing sequence number and address, none touching memory;
     * a frame shorter than a header -> bad-header-encoding meta message, nothing touched.
   Every case is emitted with its allowed observations and replayed on the real library (all source / allocator flavours). *)
EXTENDS RegpOps, FiniteSets, TLC

VARIABLE phase
Caps == {16, 20, 24, 40}
Sq == 49371
Ad == <<1, 56541>>

Init == phase \in {<<"b", tr, m, cap>> : tr \in {0, 1}, m \in {0, 1}, cap \in Caps}
Hdr(tr) == IF tr = 0 THEN 14 ELSE 12
Next == /\ phase[1] = "b"
        /\ LET tr == phase[2]
               m == phase[3]
               cap == phase[4]
               ws == m + 1
           IN \/ \E words \in 0..((cap + 6) \div ws), af \in {0, 1} :                       \* writes around the capacity
                    /\ Hdr(tr) + 2 + words * ws >= cap - 3 \/ words <= 1
                    /\ phase' = <<"c", tr, m, cap, af, "w", Request(tr, TRUE, m = 1, Sq, Ad, words, [k \in 1..words * ws |-> (k * 37) % 251])>>
              \/ \E words \in 0..((cap + 6) \div ws), af \in {0, 1} :                       \* reads around the limit
                    phase' = <<"c", tr, m, cap, af, "r", Request(tr, FALSE, m = 1, Sq, Ad, words, <<>>)>>
              \/ \E words \in 0..((cap + 6) \div ws) :                                       \* reads that carry the (empty) payload checksum word: a longer header, less room
                    phase' = <<"c", tr, m, cap, 0, "r", FrameOctets(T_RREQ, Opts(tr, m = 1, FALSE) + O_PLCRC, 0, Sq, Ad, <<0, words>>, <<>>)>>
              \/ \E hi \in {1, 32767, 32768, 65535}, lo \in {0, 1, 5, 65535}, ws16 \in {0, 1} :        \* reads of 2^16 .. 2^32 - 1 words
                    phase' = <<"c", tr, m, cap, 0, "r", FrameOctets(T_RREQ, Opts(tr, ws16 = 1, FALSE), 0, Sq, Ad, <<hi, lo>>, <<>>)>>
              \/ \E k \in 0..Hdr(tr) - 1, af \in {0, 1} :                                   \* cut below a header (also while no block can be had)
                    (af = 1 => k < 12) /\ phase' = <<"c", tr, m, cap, af, "s", Take(Request(tr, FALSE, m = 1, Sq, Ad, 1, <<>>), k)>>
Spec == Init /\ [][Next]_phase

Cfg == [tr |-> phase[2], mem16 |-> phase[3] = 1, cap |-> phase[4]]
Data == [k \in 1..64 |-> (k * 11) % 256]
WireOf == Wire(phase[2], phase[7])
Allowed == RxAllowedFor(Cfg, phase[5] = 1, 0, <<0, 0>>, Data, WireOf)
ReplyOf(ob) == LET i == CHOOSE k \in 1..Len(ob) : ob[k] = -7 /\ \A j \in 8..k - 1 : ob[j] # -7 IN Unframe(phase[2], Drop(ob, i))
NoReply(ob) == ob[Len(ob)] = -7
Match(o) == Has(Fields(o).opts, O_WS16) <=> Cfg.mem16        \* (a word-size mismatch is answered as such before anything else: C06)
C09Holds ==
    phase[1] = "c" =>
        LET o == phase[7]
            cap == phase[4]
            ws == phase[3] + 1
        IN \A ob \in Allowed : ob # <<-9>> =>
              /\ ob[3] \in {0, 1} /\ ob[4] = ob[3] /\ ob[5] = 0 /\ ob[6] = 0                                   \* ledger
              /\ (ob[7] = 1 => /\ ob[11] * ws <= cap - 12                                                      \* the block the backend fills fits
                               /\ (ob[8] = 1 => Len(ob) >= 11 + ob[11] * ws /\ ob[11 + ob[11] * ws + 1] = -7))   \* a write hands over exactly the announced block
              /\ (Len(o) < 12 => ob[7] = 0 /\ ob[2] \in {C_ENC, 16} /\ ~NoReply(ob) /\ Fields(ReplyOf(ob).frame).type = T_META /\ Fields(ReplyOf(ob).frame).meta = M_HEADERENC)
              /\ (Len(o) >= 12 /\ phase[5] = 1 /\ phase[6] # "s" =>                                              \* allocation failure
                       ob[3] = 0 /\ ob[7] = 0 /\ LET g == Fields(ReplyOf(ob).frame) IN g.meta = EBUSY /\ g.sq = Sq /\ g.addr = Ad /\ g.type = Fields(o).type + 1)
              /\ (Len(o) >= 12 /\ phase[5] = 0 /\ Len(o) > cap =>                                               \* frame too large for the block
                       ob[7] = 0 /\ LET g == Fields(ReplyOf(ob).frame) IN g.meta = ERXOVERFLOW /\ g.sq = Sq /\ g.addr = Ad /\ g.type = Fields(o).type + 1)
              /\ (phase[6] = "r" /\ Match(o) /\ phase[5] = 0 /\ Len(o) <= cap /\ ReadTooBig(Cfg, o) =>                      \* answer cannot fit
                       ob[7] = 0 /\ LET r == ReplyOf(ob).frame
                                        g == Fields(r)
                                    IN g.meta = ETXOVERFLOW /\ g.sq = Sq /\ g.addr = Ad /\ PayloadOf(r) = W4(<<0, cap>>))
              /\ (phase[6] = "r" /\ Match(o) /\ phase[5] = 0 /\ Len(o) <= cap /\ ReadFits(Cfg, o) =>                        \* answer fits: served
                       ob[7] = 1 /\ Fields(ReplyOf(ob).frame).meta = ACK)
EmitCases == phase[1] = "c" =>
    PrintT("C;;rx " \o Join(<<0, phase[2], phase[3], phase[4], phase[5], 0, 0, 0, Len(Data)>> \o Data \o <<Len(WireOf)>> \o WireOf)
           \o " | " \o JoinAlts(SetToSeq(Allowed)))
=============================================================================
