--------------------------------- MODULE Sx ---------------------------------
(* ufw s-expression reader (src/sx.c), property C20.

   Characters are their ASCII codes.  Trees:  <<1, chars>> symbol | <<2, n>> unsigned integer | <<3, items>> list.
   Render turns a tree into text (decimal or #x hexadecimal integers in either letter case, arbitrary
   inter-token whitespace); Parse is a recursive-descent reading of a text: skip whitespace, then one
   complete expression, reporting the position just past it, or an error.

   Observation (harness/sx.c, event  parse n c1..cn):
        0 pos leak agree <flattened tree>     success; flattened: 1 len chars | 2 w3 w2 w1 w0 | 3 count items...
        1 leak agree                          error status, no tree returned
   leak  = octets still allocated after the result was destroyed (must be 0)
   agree = 1 iff the NUL-terminated and the length-delimited (exact-size block) presentations agree       *)
EXTENDS Emit, SequencesExt

CONSTANTS MaxDepth, MaxItems, MaxLen

VARIABLES phase, ev
vars == <<phase>>

LP == 40
RP == 41
SP == 32
HASH == 35
IsSpace(c) == c \in {32, 9, 10, 11, 12, 13}
IsDigit(c) == c \in 48..57
IsHex(c) == IsDigit(c) \/ c \in 97..102 \/ c \in 65..70
HexVal(c) == IF IsDigit(c) THEN c - 48 ELSE IF c >= 97 THEN c - 87 ELSE c - 55
SymInitExtra == {43, 37, 124, 47, 95, 58, 59, 46, 33, 63, 36, 38, 61, 42, 60, 62, 126}    \* + % | / _ : ; . ! ? $ & = * < > ~
IsSymInit(c) == c \in 97..122 \/ c \in 65..90 \/ c \in SymInitExtra
IsSymCh(c) == IsSymInit(c) \/ IsDigit(c) \/ c = 45
IsDelim(c) == c = LP \/ c = RP \/ IsSpace(c)

(* ------------------------------------------------------------------ reading *)
RECURSIVE SkipWs(_, _)
SkipWs(s, i) == IF i <= Len(s) /\ IsSpace(s[i]) THEN SkipWs(s, i + 1) ELSE i        \* i is 1-based
RECURSIVE RunDigits(_, _), RunHex(_, _), RunSym(_, _)
RunDigits(s, i) == IF i <= Len(s) /\ IsDigit(s[i]) THEN RunDigits(s, i + 1) ELSE i
RunHex(s, i) == IF i <= Len(s) /\ IsHex(s[i]) THEN RunHex(s, i + 1) ELSE i
RunSym(s, i) == IF i <= Len(s) /\ IsSymCh(s[i]) THEN RunSym(s, i + 1) ELSE i
EndsToken(s, j) == j > Len(s) \/ IsDelim(s[j])
(* integer values are four 16-bit words, most significant first, modulo 2^64 (R2) *)
MulAdd(w, m, dgt) == LET c0 == w[4] * m + dgt
                         c1 == w[3] * m + c0 \div 65536
                         c2 == w[2] * m + c1 \div 65536
                         c3 == w[1] * m + c2 \div 65536
                     IN <<c3 % 65536, c2 % 65536, c1 % 65536, c0 % 65536>>
Zero4 == <<0, 0, 0, 0>>
RECURSIVE DecVal(_, _)
DecVal(ds, acc) == IF ds = <<>> THEN acc ELSE DecVal(Tail(ds), MulAdd(acc, 10, Head(ds) - 48))
RECURSIVE HexValOf(_, _)
HexValOf(ds, acc) == IF ds = <<>> THEN acc ELSE HexValOf(Tail(ds), MulAdd(acc, 16, HexVal(Head(ds))))
Fail == [ok |-> FALSE, tree |-> <<>>, pos |-> 0]
Ok(t, p) == [ok |-> TRUE, tree |-> t, pos |-> p]

RECURSIVE ParseExpr(_, _), ParseList(_, _, _)
ParseExpr(s, i0) ==
    LET i == SkipWs(s, i0)
    IN IF i > Len(s) THEN Fail
       ELSE LET c == s[i]
            IN IF c = LP THEN ParseList(s, i + 1, <<>>)
               ELSE IF c = RP THEN Fail
               ELSE IF c = HASH /\ i + 2 <= Len(s) /\ s[i + 1] = 120 /\ IsHex(s[i + 2])
                    THEN LET j == RunHex(s, i + 2)
                         IN IF EndsToken(s, j) THEN Ok(<<2, HexValOf(SubSeq(s, i + 2, j - 1), Zero4)>>, j) ELSE Fail
               ELSE IF IsDigit(c)
                    THEN LET j == RunDigits(s, i)
                         IN IF EndsToken(s, j) THEN Ok(<<2, DecVal(SubSeq(s, i, j - 1), Zero4)>>, j) ELSE Fail
               ELSE IF IsSymInit(c)
                    THEN LET j == RunSym(s, i)
                         IN IF EndsToken(s, j) THEN Ok(<<1, SubSeq(s, i, j - 1)>>, j) ELSE Fail
               ELSE Fail
ParseList(s, i0, acc) ==
    LET i == SkipWs(s, i0)
    IN IF i > Len(s) THEN Fail                                     \* unexpected end
       ELSE IF s[i] = RP THEN Ok(<<3, acc>>, i + 1)
       ELSE LET e == ParseExpr(s, i)
            IN IF ~e.ok THEN Fail ELSE ParseList(s, e.pos, Append(acc, e.tree))
Parse(s) == ParseExpr(s, 1)

RECURSIVE Flatten(_), FlattenAll(_)
Flatten(t) == CASE t[1] = 1 -> <<1, Len(t[2])>> \o t[2]
                [] t[1] = 2 -> <<2>> \o t[2]
                [] OTHER -> <<3, Len(t[2])>> \o FlattenAll(t[2])
FlattenAll(ts) == IF ts = <<>> THEN <<>> ELSE Flatten(Head(ts)) \o FlattenAll(Tail(ts))
ParseObs(s) == LET r == Parse(s) IN IF r.ok THEN <<0, r.pos - 1, 0, 1>> \o Flatten(r.tree) ELSE <<1, 0, 1>>   \* C positions are 0-based

(* ------------------------------------------------------------------ printing *)
RECURSIVE DecDigits(_)
DecDigits(n) == IF n < 10 THEN <<48 + n>> ELSE DecDigits(n \div 10) \o <<48 + (n % 10)>>
HexDigit(d, upper) == IF d < 10 THEN 48 + d ELSE (IF upper THEN 55 ELSE 87) + d
RECURSIVE HexDigits(_, _)
HexDigits(n, upper) == IF n < 16 THEN <<HexDigit(n, upper)>> ELSE HexDigits(n \div 16, upper) \o <<HexDigit(n % 16, upper)>>
(* style = [hex, upper, ws]: ws 0 minimal, 1 double spaces and padding inside parentheses, 2 newline + tab, 3 vertical tab + form feed + carriage return *)
Gap(style) == CASE style.ws = 0 -> <<32>> [] style.ws = 1 -> <<32, 32>> [] style.ws = 2 -> <<10, 9>> [] OTHER -> <<11, 12, 13>>
Pad(style) == IF style.ws = 0 THEN <<>> ELSE Gap(style)
RECURSIVE Render(_, _), RenderItems(_, _)
Render(t, style) == CASE t[1] = 1 -> t[2]
                      [] t[1] = 2 -> IF style.hex THEN <<35, 120>> \o HexDigits(t[2], style.upper) ELSE DecDigits(t[2])
                      [] OTHER -> <<LP>> \o Pad(style) \o RenderItems(t[2], style) \o Pad(style) \o <<RP>>
RenderItems(ts, style) == IF ts = <<>> THEN <<>>
                          ELSE IF Len(ts) = 1 THEN Render(ts[1], style)
                          ELSE Render(ts[1], style) \o Gap(style) \o RenderItems(Tail(ts), style)

(* ------------------------------------------------------------------ families *)
Atoms == {<<1, <<97>>>>, <<1, <<98, 45, 49>>>>, <<2, 0>>, <<2, 10>>, <<2, 255>>}             \* a  b-1  0  10  255
RECURSIVE Trees(_)
Trees(dpt) == IF dpt = 0 THEN Atoms
              ELSE LET T == Trees(dpt - 1) IN T \cup {<<3, items>> : items \in SeqsUpTo(T, MaxItems)}
(* deep nests: single-element chains and empty lists at every depth up to 6 *)
RECURSIVE Nest(_, _)
Nest(k, t) == IF k = 0 THEN t ELSE <<3, <<Nest(k - 1, t)>>>>
Empty == <<3, <<>>>>
DeepTrees == {Nest(k, t) : k \in 1..6, t \in Atoms \cup {Empty}}
             \cup {<<3, <<Nest(k, Empty), Nest(j, t)>>>> : k \in 0..4, j \in 0..4, t \in {Empty, <<1, <<97>>>>}}
             \cup {<<3, <<<<1, <<97>>>>, Nest(k, Empty), <<2, 10>>, Nest(j, Empty)>>>> : k \in 0..3, j \in 0..3}
Styles == {[hex |-> h, upper |-> u, ws |-> w] : h \in BOOLEAN, u \in BOOLEAN, w \in {0, 1, 2, 3}}
Alphabet == <<40, 41, 32, 97, 49, 35, 120, 70, 45, 123>>                                        \* ( ) space a 1 # x F - {

(* trees of the rendering family carry small integers; the reader returns them as four words *)
RECURSIVE Norm(_)
Norm(t) == CASE t[1] = 1 -> t
             [] t[1] = 2 -> <<2, <<0, 0, t[2] \div 65536, t[2] % 65536>>>>
             [] OTHER -> <<3, [k \in 1..Len(t[2]) |-> Norm(t[2][k])]>>
ParseInvertsRender(t, style) ==
    LET s == Pad(style) \o Render(t, style)
        r == Parse(s)
    IN r.ok /\ r.tree = Norm(t) /\ r.pos = Len(s) + 1
       /\ Parse(s \o <<32, 97>>).pos = Len(s) + 1                      \* position just past the expression, trailing text untouched

Init == /\ phase \in {<<"b", "tree", k>> : k \in 0..15} \cup {<<"b", "str", k>> : k \in 1..Len(Alphabet)} \cup {<<"b", "str", 0>>}
        /\ ev = Boot
StyleNo(k) == CHOOSE st \in Styles : (IF st.hex THEN 8 ELSE 0) + (IF st.upper THEN 4 ELSE 0) + st.ws = k
Next == /\ phase[1] = "b" /\ ev' = Boot
        /\ \/ phase[2] = "tree" /\ \E t \in Trees(MaxDepth) \cup DeepTrees : phase' = <<"c", "tree", t, StyleNo(phase[3])>>
           \/ phase[2] = "str" /\ phase[3] = 0 /\ phase' = <<"c", "str", <<>>>>
           \/ phase[2] = "str" /\ phase[3] > 0 /\ \E s \in SeqsUpTo(Range(Alphabet), MaxLen - 1) :
                 phase' = <<"c", "str", <<Alphabet[phase[3]]>> \o s>>
Spec == Init /\ [][Next]_<<vars, ev>>

Q == phase
CaseInv == (phase[1] = "c" /\ Q[2] = "tree") => ParseInvertsRender(Q[3], Q[4])
CaseText == IF Q[2] = "tree" THEN Pad(Q[4]) \o Render(Q[3], Q[4]) \o (IF Q[4].ws = 1 THEN <<32, 41>> ELSE <<>>) ELSE Q[3]
EmitCases == phase[1] = "c" =>
    EmitCase("parse " \o Join(<<Len(CaseText)>> \o CaseText) \o " | " \o Join(ParseObs(CaseText)))
=============================================================================
