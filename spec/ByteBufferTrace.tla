-------------------------- MODULE ByteBufferTrace --------------------------
(* E2: validates an execution recorded from the real byte buffer (harness/bytebuf.c -r) against
   ByteBuffer.tla.  Every recorded call must be explained by the corresponding action with the
   logged arguments, and the logged observation must equal the one the action prescribes.      *)
EXTENDS ByteBuffer, Json, IOUtils
TraceLog == ndJsonDeserialize(IOEnv.TRACE)
VARIABLE l
e == TraceLog[l]

TInit == Init /\ l = 1
Restart == valid' = FALSE /\ size' = 0 /\ filled' = <<>> /\ offset' = 0 /\ ev' = Boot

Step == CASE e.op = "@" -> Restart
          [] e.op = "set" -> Set(e.a[1], e.a[2], e.a[3], e.a[4])
          [] e.op = "space" -> Space(e.a[1])
          [] e.op = "use" -> Use(e.a[1])
          [] e.op = "null" -> Null
          [] e.op = "add" -> Add(Drop(e.a, 1))
          \* the source of an add may be the buffer's own filled region (harness: off = a mod (used + 1), n = b mod (used - off + 1))
          [] e.op = "addself" -> LET off == e.a[1] % (Used + 1) n == e.a[2] % (Used - off + 1) IN Add(SubSeq(filled, off + 1, off + n))
          [] e.op = "consume" -> Consume(e.a[1])
          [] e.op = "consume_at_most" -> ConsumeAtMost(e.a[1])
          \* bigadd u n: a stateless probe on a buffer of 4 GiB + 16 octets holding u: adding n octets succeeds, exactly n are added and
          \* copied, the free space shrinks by n (sizes beyond 2^32 are not representable in the model's state: R2)
          [] e.op = "bigadd" -> UNCHANGED vars /\ ev' = Ev("bigadd", e.a, <<0, e.a[2], 1>>)
          [] e.op = "addhuge" -> AddHuge(e.a[1])
          [] e.op = "consumehuge" -> ConsumeHuge(e.a[1])
          [] e.op = "camhuge" -> ConsumeAtMostHuge(e.a[1])
          [] e.op = "rewind" -> Rewind
          [] e.op = "clear" -> Clear
          [] e.op = "reset" -> Reset
          [] e.op = "repeat" -> Repeat
          [] e.op = "avail" -> Avail
          [] e.op = "rest" -> Rest
          [] e.op = "sinkput" -> SinkPut(Drop(e.a, 1))
          [] e.op = "srcget" -> SrcGet(e.a[1])
          [] e.op = "srcgetam" -> SrcGetAtMost(e.a[1])
          [] OTHER -> FALSE

TNext == /\ l <= Len(TraceLog)
         /\ l' = l + 1
         /\ Step
         /\ e.op # "@" => (ev'.o = e.o /\ e.asan = 0)

TSpec == TInit /\ [][TNext]_<<vars, ev, l>>
Accepted == LET n == TLCGet("stats").diameter - 1
            IN PrintT("L;;" \o ToString(n)) /\ n = Len(TraceLog)
=============================================================================
