SPECIFICATION TSpec
CONSTANTS
  MaxN = 1
  MaxScript = 1
  MaxPScript = 1
  MaxKScript = 1
POSTCONDITION Accepted
CHECK_DEADLOCK FALSE
