--------------------------- MODULE PersistentTrace ---------------------------
(* E2 for C10/C11: executions recorded from the real persistent storage (large data sizes, random
   images, single medium faults at every position, power cuts at every write prefix / torn length)
   validated against Persistent.tla.

   Unarmed operations must match the functional model exactly (code, medium image, data).
   An operation under an armed fault or crash whose trigger was not reached (struck = 0) likewise.
   Fault struck:  rc must be I/O error (never success); the medium may have changed only inside the
   region (its image is adopted from the log).
   Crash struck:  the medium image is adopted from the log (region containment checked); the
   following reopen/validate/fetch are ordinary operations on that image, and CrashVerdict is what
   C11 demands of them.                                                                           *)
EXTENDS Persistent, Json, IOUtils
TraceLog == ndJsonDeserialize(IOEnv.TRACE)
VARIABLE l
e == TraceLog[l]
TInit == Init /\ l = 1
Restart == cfg' = <<>> /\ medium' = <<>> /\ armed' = <<>> /\ last' = <<>> /\ ev' = Boot

Img(o) == Drop(o, 3)
Writes(op) == op \in {"store", "storep", "reset"}
NewImage == CASE e.op = "store" -> Drop(e.a, 1)
              [] e.op = "storep" /\ PartOk(cfg, e.a[1], e.a[2]) -> Overlay(DataImage(cfg, medium), e.a[1], Drop(e.a, 2))
              [] OTHER -> <<>>
Plain == CASE e.op = "cfg" -> Configure(e.a[1], e.a[2], e.a[3], e.a[4], e.a[5])
           [] e.op = "store" -> Store(Drop(e.a, 1))
           [] e.op = "storep" -> StoreP(e.a[1], Drop(e.a, 2))
           [] e.op = "validate" -> Validate
           [] e.op = "fetch" -> Fetch
           [] e.op = "fetchp" -> FetchP(e.a[1], e.a[2])
           [] e.op = "reset" -> Reset(e.a[1])
           [] e.op = "corrupt" -> Corrupt(e.a[1], e.a[2])
           [] e.op = "reopen" -> Reopen
           [] OTHER -> FALSE
Arm == /\ armed' = (IF e.op = "fault" THEN <<"fault", e.a[1], e.a[2]>> ELSE <<"crash", e.a[1], e.a[2]>>)
       /\ UNCHANGED base /\ ev' = Ev(e.op, e.a, e.o)
Struck ==
    /\ armed' = <<>> /\ UNCHANGED cfg /\ ev' = Ev(e.op \o "!", e.a, e.o)
    /\ e.o[2] = 0                                      \* no access left the region
    /\ (armed[1] = "fault" => e.o[1] = IOERR)
    /\ IF Writes(e.op)
       THEN /\ OutsideUnchanged(cfg, medium, Img(e.o)) /\ medium' = Img(e.o)
            /\ last' = IF armed[1] = "crash" /\ NewImage # <<>>
                       THEN [prev |-> DataImage(cfg, medium), new |-> NewImage, torn |-> armed[3]]
                       ELSE <<>>
       ELSE UNCHANGED <<medium, last>>
TNext == /\ l <= Len(TraceLog) /\ l' = l + 1
         /\ CASE e.op = "@" -> Restart
              [] e.op = "mbase" -> UNCHANGED vars /\ ev' = Ev("mbase", e.a, <<0>>)    \* harness: medium offsets are presented to the library shifted by a 32-bit base (Persistent.tla is translation invariant)
              [] e.op \in {"fault", "crash"} -> Arm
              [] armed # <<>> /\ e.op \notin {"reopen", "corrupt", "cfg"} /\ e.o[3] = 1 -> Struck
              [] OTHER -> Plain /\ ev'.o = e.o /\ armed' = <<>>
         /\ (e.op # "@" => e.asan = 0)
TSpec == TInit /\ [][TNext]_<<vars, ev, l>>

(* C11: after a power cut, whatever a fresh instance then finds valid has a checksum matching the data
   on the medium; when the cut fell between whole writes the data is exactly the previous or the new image *)
CrashVerdict ==
    (cfg # <<>> /\ last # <<>> /\ "torn" \in DOMAIN last) =>
        (ValidateF(cfg, medium) = OK =>
            /\ StoredSum(cfg, medium) = SumImage(cfg, Checksum(cfg, DataImage(cfg, medium)))
            /\ (last.torn = 0 => DataImage(cfg, medium) \in {last.prev, last.new}))
Accepted == LET k == TLCGet("stats").diameter - 1
            IN PrintT("L;;" \o ToString(k)) /\ k = Len(TraceLog)
=============================================================================
