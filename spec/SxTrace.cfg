SPECIFICATION TSpec
CONSTANTS
  MaxDepth = 1
  MaxItems = 1
  MaxLen = 1
POSTCONDITION Accepted
CHECK_DEADLOCK FALSE
