----------------------------- MODULE RingBuffer -----------------------------
(* ufw ring buffer (include/ufw/ring-buffer.h, ring-buffer-iter.h), property C19.

   Two layers in one module:
   - the abstract bounded queue q (what C19 talks about), updated by the rule of the statement;
   - the implementation-shaped state head/tail/data exactly as the macros compute it, so that TLC
     drives every reachable (head, tail, q) combination and the refinement Content = q is an invariant.
   Observation (harness/ring.c), after every call:
        ret size empty full  n1 <old-to-new values>  n2 <new-to-old values>
   n1/n2 = number of steps the iterator made before reporting done.                                  *)
EXTENDS Emit

CONSTANTS MaxCap, Alphabet, Types     \* Types \subseteq {8, 32, 64}: element type of the instantiation (octets, uint32_t, double)

VARIABLES cap, ty, head, tail, data, ovr, q, ev
vars == <<cap, ty, head, tail, data, ovr, q>>

Init == cap = 0 /\ ty = 0 /\ head = 0 /\ tail = 0 /\ data = <<>> /\ ovr = FALSE /\ q = <<>> /\ ev = Boot

Reverse(s) == [i \in 1..Len(s) |-> s[Len(s) + 1 - i]]
B(b) == IF b THEN 1 ELSE 0
Obs(ret, qq, c) == <<ret, Len(qq), B(qq = <<>>), B(Len(qq) = c), Len(qq)>> \o qq \o <<Len(qq)>> \o Reverse(qq)

(* implementation-shaped helpers *)
IEmpty == tail = cap
IFull == head = tail
AdvTail(h, t) == LET t1 == (t + 1) % cap IN IF t1 = h THEN cap ELSE t1
Content(h, t, d) == IF t = cap THEN <<>>
                    ELSE LET n == IF t < h THEN h - t ELSE (cap - t) + h
                         IN [i \in 1..n |-> d[((t + i - 1) % cap) + 1]]

RInit(c, t) == /\ cap' = c /\ ty' = t /\ head' = 0 /\ tail' = c /\ data' = Fill(c, 0) /\ ovr' = FALSE /\ q' = <<>>
               /\ ev' = Ev("init", <<c, t>>, Obs(0, <<>>, c))

Put(x) == /\ cap > 0
          /\ q' = IF Len(q) = cap THEN (IF ovr THEN Append(Tail(q), x) ELSE q) ELSE Append(q, x)
          /\ IF IFull /\ ~ovr
             THEN UNCHANGED <<head, tail, data>>
             ELSE LET t1 == IF IFull THEN AdvTail(head, tail) ELSE tail
                      t2 == IF t1 = cap THEN head ELSE t1
                  IN /\ data' = [data EXCEPT ![head + 1] = x]
                     /\ head' = (head + 1) % cap
                     /\ tail' = t2
          /\ UNCHANGED <<cap, ty, ovr>>
          /\ ev' = Ev("put", <<x>>, Obs(0, q', cap))

Get == /\ cap > 0
       /\ q' = IF q = <<>> THEN q ELSE Tail(q)
       /\ IF IEmpty THEN UNCHANGED <<tail>> ELSE tail' = AdvTail(head, tail)
       /\ UNCHANGED <<cap, ty, head, data, ovr>>
       /\ ev' = Ev("get", <<>>, Obs(IF q = <<>> THEN 0 ELSE Head(q), q', cap))

Clear == /\ cap > 0 /\ q' = <<>> /\ tail' = cap /\ UNCHANGED <<cap, ty, head, data, ovr>>
         /\ ev' = Ev("clear", <<>>, Obs(0, <<>>, cap))

Override(b) == /\ cap > 0 /\ ovr' = (b = 1) /\ UNCHANGED <<cap, ty, head, tail, data, q>>
               /\ ev' = Ev("override", <<b>>, Obs(0, q, cap))

Next == \/ \E c \in 1..MaxCap, t \in Types : RInit(c, t)
        \/ \E x \in Alphabet : Put(x)
        \/ Get \/ Clear
        \/ \E b \in {0, 1} : Override(b)
Spec == Init /\ [][Next]_<<vars, ev>>

---------------------------------------------------------------------------
(* C19 on the model *)
QueueRefinement == cap > 0 => Content(head, tail, data) = q
Bounded == Len(q) <= cap
ImplShape == cap > 0 => head \in 0..cap - 1 /\ tail \in 0..cap /\ Len(data) = cap
(* what the implementation's own size/empty/full would answer agrees with the queue *)
ISize == IF IEmpty THEN 0 ELSE IF tail < head THEN head - tail ELSE (cap - tail) + head
SizeEmptyFullAgree == cap > 0 => ISize = Len(q) /\ (IEmpty <=> q = <<>>) /\ (IFull <=> Len(q) = cap)

(* iterators as the implementation computes them: start index, step, number of steps *)
RECURSIVE IterVals(_, _, _)
IterVals(idx, steps, dir) ==
    IF steps = 0 THEN <<>>
    ELSE <<data[idx + 1]>> \o IterVals(IF dir = 1 THEN (idx + 1) % cap
                                       ELSE IF idx = 0 THEN cap - 1 ELSE idx - 1, steps - 1, dir)
IterOldNewIsQueue == cap > 0 /\ ~IEmpty => IterVals(tail, ISize, 1) = q
IterNewOldIsReverse == cap > 0 /\ ~IEmpty =>
    IterVals(IF head = 0 THEN cap - 1 ELSE head - 1, ISize, 0) = Reverse(q)

GetOldest == [][ev'.op = "get" => /\ ev'.o[1] = (IF q = <<>> THEN 0 ELSE Head(q))
                                  /\ q' = (IF q = <<>> THEN q ELSE Tail(q))]_<<vars, ev>>
PutRule == [][ev'.op = "put" =>
                 q' = IF Len(q) < cap THEN Append(q, ev'.a[1])
                      ELSE IF ovr THEN Append(Tail(q), ev'.a[1]) ELSE q]_<<vars, ev>>

(* Unbounded capacities: RingBufferAbs.tla keeps cap/head/tail/override and the queue length; Apalache shows the
   size/empty/full agreement inductive there for every capacity.  RefinesAbs: every step of this module is a step
   of the abstraction (checked by TLC on the bounded model). *)
Abs == INSTANCE RingBufferAbs WITH cap <- cap, head <- head, tail <- tail, ovr <- ovr, n <- Len(q)
RefinesAbs == [][CASE ev'.op = "put" -> Abs!Put
                   [] ev'.op = "get" -> Abs!Get
                   [] ev'.op = "clear" -> Abs!Clear
                   [] ev'.op = "override" -> Abs!Override
                   [] ev'.op = "init" -> cap' >= 1 /\ head' = 0 /\ tail' = cap' /\ ovr' = FALSE /\ q' = <<>>
                   [] OTHER -> UNCHANGED vars]_<<vars, ev>>

Key == ToString(vars)
View == vars
EmitAll == EmitEdge(Key, ToString(<<cap', ty', head', tail', data', ovr', q'>>), ev')
EmitInit == ev.op = "boot" => EmitInitial(Key)
=============================================================================
