-------------------------- MODULE LengthPrefixTrace --------------------------
(* E2: recorded length-prefix calls (random buffer states, long payloads, random fragmentation) recomputed
   from LengthPrefix.tla *)
EXTENDS LengthPrefix, Json, IOUtils
TraceLog == ndJsonDeserialize(IOEnv.TRACE)
VARIABLE l
e == TraceLog[l]
TInit == phase = <<"trace">> /\ ev = Boot /\ l = 1
k == e.a[1]
B3(i) == <<e.a[i], e.a[i + 1], e.a[i + 2]>>
Chunks(nc) == [i \in 1..nc |-> B3(3 * i + 1)]
Expected ==
    CASE e.op = "menc" -> MencObs(k, e.a[2], e.a[3], e.a[4], e.a[5])
      \* msinkhuge k d: SSIZE_MAX - d octets into an accounting sink.  Only the prefix of unbounded width can announce such a length
      \* (nine octets); prefix and payload together must still be a reportable total, i.e. d >= 9 - else refused with nothing emitted
      [] e.op = "msinkhuge" -> IF k = 0 /\ e.a[2] >= 9 THEN <<0, e.a[2] - 9, 1>> ELSE <<-1, 0>>
      [] e.op = "benc" -> BencObs(k, B3(2))
      [] e.op = "bencn" -> BencnObs(k, B3(2), e.a[5])
      [] e.op = "cuse" -> CuseObs(k, Drop(Chunks(e.a[3]), e.a[2]))
      [] e.op = "msink" -> MsinkObs(k, e.a[2])
      [] e.op = "bsink" -> BsinkObs(k, B3(2))
      [] e.op = "bsinkn" -> BsinknObs(k, B3(2), e.a[5])
      [] e.op = "csink" -> CsinkObs(k, Drop(Chunks(e.a[3]), e.a[2]))
      [] e.op = "mdec" -> MdecObs(k, e.a[2], Drop(e.a, 4))
      [] e.op = "bdec" -> BdecObs(k, B3(2), Drop(e.a, 6))
      [] e.op = "sdec" -> SdecObs(k, Drop(e.a, 3))
      [] OTHER -> <<>>
TNext == /\ l <= Len(TraceLog) /\ l' = l + 1
         /\ (e.op # "@" => e.o = Expected /\ e.asan = 0)
         /\ UNCHANGED <<vars, ev>>
TSpec == TInit /\ [][TNext]_<<vars, ev, l>>
Accepted == LET n == TLCGet("stats").diameter - 1
            IN PrintT("L;;" \o ToString(n)) /\ n = Len(TraceLog)
=============================================================================
