SPECIFICATION TSpec
PROPERTIES RefusedUnchanged
POSTCONDITION Accepted
CHECK_DEADLOCK FALSE
