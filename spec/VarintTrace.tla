----------------------------- MODULE VarintTrace -----------------------------
(* E2: recorded dec/enc calls of the real library are recomputed from Varint.tla *)
EXTENDS Varint, Json, IOUtils
TraceLog == ndJsonDeserialize(IOEnv.TRACE)
VARIABLE l
e == TraceLog[l]
TInit == Init /\ l = 1
M(t) == MaxOctets(t)
DecOk == LET s == DecodeStr(e.a[1], Drop(e.a, 2))
             alts == ObsFor(s, 0)
         IN \E i \in 1..Len(alts) : alts[i] = e.o
EncOk == LET g == Drop(e.a, 2)
             en == Encode(g)
         IN e.o = <<Len(en), LengthOf(g)>> \o en \o <<-7>> \o en
(* calls recorded from the repository's own test programs (harness/suite/wrap.c), one decoder / encoder / length query at a time:
     sdecb ty n o1..on | rc consumed g..      senc ty g.. | rc (used - offset) e..      slen ty g.. | length *)
SDecAlts(s) == CASE s.st = "done" -> IF Overflows(s.ty, s.acc) THEN {<<s.n, s.n>> \o Trunc(s.ty, s.acc), <<-1, 0>>, <<EILSEQ, 0>>}
                                     ELSE {<<s.n, s.n>> \o Trunc(s.ty, s.acc)}
                 [] s.st = "illegal" -> {<<EILSEQ, 0>>}
                 [] OTHER -> {<<-1, 0>>}
SDecOk == e.o \in SDecAlts(DecodeStr(e.a[1], Drop(e.a, 2)))
SEncOk == LET en == Encode(Drop(e.a, 1)) IN e.o = <<Len(en), Len(en)>> \o en
SLenOk == e.o = <<LengthOf(Drop(e.a, 1))>>
TNext == /\ l <= Len(TraceLog) /\ l' = l + 1
         /\ CASE e.op = "@" -> TRUE
              [] e.op = "dec" -> DecOk /\ e.asan = 0
              [] e.op = "enc" -> EncOk /\ e.asan = 0
              [] e.op = "sdecb" -> SDecOk
              [] e.op = "senc" -> SEncOk
              [] e.op = "slen" -> SLenOk
              [] e.op \in {"sweep32", "rnd64"} -> e.o[1] = 0 /\ e.asan = 0
              [] OTHER -> FALSE
         /\ UNCHANGED <<vars, ev>>
TSpec == TInit /\ [][TNext]_<<vars, ev, l>>
Accepted == LET k == TLCGet("stats").diameter - 1
            IN PrintT("L;;" \o ToString(k)) /\ k = Len(TraceLog)
=============================================================================
