----------------------------- MODULE VarintTrace -----------------------------
(* E2: recorded dec/enc calls of the real library are recomputed from Varint.tla *)
EXTENDS Varint, Json, IOUtils
TraceLog == ndJsonDeserialize(IOEnv.TRACE)
VARIABLE l
e == TraceLog[l]
TInit == Init /\ l = 1
M(t) == MaxOctets(t)
DecOk == LET s == DecodeStr(e.a[1], Drop(e.a, 2))
             alts == ObsFor(s, 0)
         IN \E i \in 1..Len(alts) : alts[i] = e.o
EncOk == LET g == Drop(e.a, 2)
             en == Encode(g)
         IN e.o = <<Len(en), LengthOf(g)>> \o en \o <<-7>> \o en
TNext == /\ l <= Len(TraceLog) /\ l' = l + 1
         /\ CASE e.op = "@" -> TRUE
              [] e.op = "dec" -> DecOk /\ e.asan = 0
              [] e.op = "enc" -> EncOk /\ e.asan = 0
              [] e.op \in {"sweep32", "rnd64"} -> e.o[1] = 0 /\ e.asan = 0
              [] OTHER -> FALSE
         /\ UNCHANGED <<vars, ev>>
TSpec == TInit /\ [][TNext]_<<vars, ev, l>>
Accepted == LET k == TLCGet("stats").diameter - 1
            IN PrintT("L;;" \o ToString(k)) /\ k = Len(TraceLog)
=============================================================================
