SPECIFICATION Spec
CONSTANTS
  MaxBurst = 12
  TwoBitFrames = {1, 2, 3, 4, 5, 6, 7, 8, 9}
  EmitEvery = 53
INVARIANT NeverOk
CONSTRAINT EmitCases
CHECK_DEADLOCK FALSE
