-------------------------------- MODULE SxOps --------------------------------
(* The s-expression tree operations (src/sx.c beyond the reader; extra X07): construction (make_*, cons), sx_pop,
   sx_append, sx_cxr, sx_is_list, sx_foreach and sx_destroy on a small file of tree slots, with ownership as the code
   defines it (cons and append consume their arguments, pop splits a pair and frees the cell).

   Trees:  <<0>> the empty list | <<1, chars>> symbol | <<2, n>> integer | <<4, car, cdr>> pair (improper lists allowed).
   A slot holds a tree or NIL (nothing).  Observation after every operation: result, then the flattened slots
   (harness/sxops.c):  -1 for an empty slot | 0 | 1 len chars | 2 n | 4 <car> <cdr>, and - whenever all slots are
   empty - the number of heap octets still allocated (must be 0).                                                  *)
EXTENDS Emit, SequencesExt, TLC

CONSTANTS NSlots, MaxNodes
NIL == <<>>
VARIABLES slot, ev
vars == <<slot>>

Atoms == {<<0>>, <<1, <<97>>>>, <<1, <<98, 99>>>>, <<2, 0>>, <<2, 7>>}
IsPair(t) == t[1] = 4
IsNull(t) == t[1] = 0
RECURSIVE Nodes(_)
Nodes(t) == IF t = NIL THEN 0 ELSE IF IsPair(t) THEN 1 + Nodes(t[2]) + Nodes(t[3]) ELSE 1
RECURSIVE Flat(_)
Flat(t) == IF t = NIL THEN <<-1>>
           ELSE CASE t[1] = 0 -> <<0>>
                  [] t[1] = 1 -> <<1, Len(t[2])>> \o t[2]
                  [] t[1] = 2 -> <<2, t[2]>>
                  [] OTHER -> <<4>> \o Flat(t[2]) \o Flat(t[3])
RECURSIVE FlatAll(_, _)
FlatAll(s, i) == IF i > NSlots THEN <<>> ELSE Flat(s[i]) \o FlatAll(s, i + 1)
Total(s) == LET RECURSIVE sum(_)
                sum(i) == IF i > NSlots THEN 0 ELSE Nodes(s[i]) + sum(i + 1)
            IN sum(1)
AllEmpty(s) == \A i \in 1..NSlots : s[i] = NIL
State(s) == FlatAll(s, 1) \o (IF AllEmpty(s) THEN <<-5, 0>> ELSE <<>>)      \* -5 0: nothing left allocated
Do(name, args, res, s) == slot' = s /\ ev' = Ev(name, args, res \o <<-7>> \o State(s))

Init == slot = [i \in 1..NSlots |-> NIL] /\ ev = Boot

Make(i, a) == slot[i] = NIL /\ Total(slot) < MaxNodes /\ Do("make", <<i>> \o Flat(a), <<0>>, [slot EXCEPT ![i] = a])
(* cons: the new pair owns both arguments *)
ConsOp(i, j) == /\ i # j /\ slot[i] # NIL /\ slot[j] # NIL /\ Total(slot) < MaxNodes
              /\ Do("cons", <<i, j>>, <<0>>, [slot EXCEPT ![i] = <<4, slot[i], slot[j]>>, ![j] = NIL])
(* pop: hands out the first element and leaves the rest; of a non-pair it hands out the node itself and leaves nothing *)
PopOp(i, j) == /\ i # j /\ slot[j] = NIL
             /\ IF slot[i] = NIL THEN Do("pop", <<i, j>>, <<1>>, slot)                                   \* nothing there: nothing handed out
                ELSE IF IsPair(slot[i]) THEN Do("pop", <<i, j>>, <<0>>, [slot EXCEPT ![i] = slot[i][3], ![j] = slot[i][2]])
                ELSE Do("pop", <<i, j>>, <<0>>, [slot EXCEPT ![i] = NIL, ![j] = slot[i]])
(* append: b becomes the tail of a (whatever ended a before is released); the empty list is the unit; anything else refused *)
RECURSIVE WithTail(_, _)
WithTail(a, b) == IF IsPair(a[3]) THEN <<4, a[2], WithTail(a[3], b)>> ELSE <<4, a[2], b>>
AppendOp(i, j) ==
    /\ i # j /\ slot[i] # NIL /\ slot[j] # NIL
    /\ LET a == slot[i]
           b == slot[j]
       IN IF IsNull(a) THEN Do("append", <<i, j>>, <<0>>, [slot EXCEPT ![i] = b, ![j] = NIL])
          ELSE IF IsNull(b) THEN Do("append", <<i, j>>, <<0>>, [slot EXCEPT ![j] = NIL])
          ELSE IF ~(IsPair(a) /\ IsPair(b)) THEN Do("append", <<i, j>>, <<1>>, slot)                    \* refused, both arguments stay with the caller
          ELSE Do("append", <<i, j>>, <<0>>, [slot EXCEPT ![i] = WithTail(a, b), ![j] = NIL])
(* cxr: address letters applied right to left, a = first, d = rest; NULL as soon as a step leaves the pairs or the letter is unknown *)
RECURSIVE Cxr(_, _)
Cxr(t, addr) == IF addr = <<>> THEN t
                ELSE IF ~IsPair(t) THEN NIL
                ELSE LET c == addr[Len(addr)]
                     IN IF c = 97 THEN Cxr(t[2], Front(addr)) ELSE IF c = 100 THEN Cxr(t[3], Front(addr)) ELSE NIL
Addrs == SeqsUpTo({97, 100}, 3) \cup {<<120>>, <<97, 120>>, <<120, 100>>}
CxrOp(i, addr) == slot[i] # NIL /\ Do("cxr", <<i, Len(addr)>> \o addr, Flat(Cxr(slot[i], addr)), slot)
RECURSIVE Proper(_)
Proper(t) == IsNull(t) \/ (IsPair(t) /\ Proper(t[3]))
IsList(i) == slot[i] # NIL /\ Do("islist", <<i>>, <<IF Proper(slot[i]) THEN 1 ELSE 0>>, slot)
RECURSIVE Cars(_)
Cars(t) == IF IsPair(t) THEN Flat(t[2]) \o <<-6>> \o Cars(t[3]) ELSE <<>>
Foreach(i) == slot[i] # NIL /\ Do("foreach", <<i>>, Cars(slot[i]), slot)
Destroy(i) == Do("destroy", <<i>>, <<0>>, [slot EXCEPT ![i] = NIL])                                      \* also of an empty slot

Next == \/ \E i \in 1..NSlots, a \in Atoms : Make(i, a)
        \/ \E i, j \in 1..NSlots : ConsOp(i, j) \/ PopOp(i, j) \/ AppendOp(i, j)
        \/ \E i \in 1..NSlots : IsList(i) \/ Foreach(i) \/ Destroy(i) \/ \E ad \in Addrs : CxrOp(i, ad)
Spec == Init /\ [][Next]_<<vars, ev>>

(* what a user relies on *)
NodesConserved == [][ev'.op \in {"cons", "pop", "append"} /\ ev'.o[1] = 0 =>
                        Total(slot') = Total(slot) + (CASE ev'.op = "cons" -> 1
                                                        [] ev'.op = "pop" -> IF IsPair(slot[ev'.a[1]]) THEN -1 ELSE 0
                                                        [] OTHER -> -1)]_vars       \* append releases exactly the old terminator
PopThenConsIsIdentity == [][ev'.op = "pop" /\ ev'.o[1] = 0 /\ IsPair(slot[ev'.a[1]]) =>
                               <<4, slot'[ev'.a[2]], slot'[ev'.a[1]]>> = slot[ev'.a[1]]]_vars
AppendKeepsElements == [][ev'.op = "append" /\ ev'.o[1] = 0 /\ IsPair(slot[ev'.a[1]]) /\ IsPair(slot[ev'.a[2]]) =>
                             Cars(slot'[ev'.a[1]]) = Cars(slot[ev'.a[1]]) \o Cars(slot[ev'.a[2]])]_vars
RefusedKeepsEverything == [][ev'.o[1] = 1 /\ ev'.op \in {"append", "pop"} => slot' = slot]_vars

Key == ToString(slot)
View == vars
EmitAll == EmitEdge(Key, ToString(slot'), ev')
EmitInit == ev.op = "boot" => EmitInitial(Key)
=============================================================================
