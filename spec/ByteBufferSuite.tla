-------------------------- MODULE ByteBufferSuite --------------------------
(* E2 with the repository's own test programs as the workload: harness/suite/wrap.c sits (ld --wrap, no source hook)
   between the test programs - and the library modules built on the byte buffer - and byte-buffer.c and records every
   call.  The tests use many buffer objects and also reach into the structs, so every call is recorded together with
   the object as it was in front of it:

     adopt size used offset d1..dused           the object in front of the next call (only well-formed ones are recorded)
     @ / sset, suse, sspace ...                 set-up calls start from "no block"; the memory handed over is logged
     add, consume, consume_at_most, rewind, clear, reset, repeat, avail, rest     as in ByteBufferTrace.tla

   Every recorded call must be the ByteBuffer.tla action of that name from the adopted state, with the logged
   observation; the action properties of C18 are checked on every such step.                                       *)
EXTENDS ByteBuffer, Json, IOUtils
TraceLog == ndJsonDeserialize(IOEnv.TRACE)
VARIABLE l
e == TraceLog[l]

TInit == Init /\ l = 1
Restart == valid' = FALSE /\ size' = 0 /\ filled' = <<>> /\ offset' = 0 /\ ev' = Boot
Adopt == /\ e.a[1] > 0 /\ e.a[3] <= e.a[2] /\ e.a[2] <= e.a[1] /\ Len(e.a) = 3 + e.a[2]
         /\ valid' = TRUE /\ size' = e.a[1] /\ filled' = Drop(e.a, 3) /\ offset' = e.a[3] /\ ev' = Boot

(* set-up with the memory content as it is (the model of C18 fills fresh blocks itself) *)
SetUp(name, sz, us, off, isnull, mem) ==
    IF SetOk(sz, us, off, isnull)
    THEN /\ Len(mem) = us
         /\ valid' = TRUE /\ size' = sz /\ filled' = mem /\ offset' = off
         /\ ev' = Ev(name, e.a, Proj2(0, sz, mem, off))
    ELSE UNCHANGED vars /\ ev' = Ev(name, e.a, Proj(-1))

Step == CASE e.op = "@" -> Restart
          [] e.op = "adopt" -> Adopt
          [] e.op = "skipped" -> UNCHANGED vars /\ ev' = Boot
          [] e.op = "sset" -> SetUp("sset", e.a[1], e.a[2], e.a[3], e.a[4], Drop(e.a, 4))
          [] e.op = "suse" -> SetUp("suse", e.a[1], e.a[1], 0, e.a[2], Drop(e.a, 2))
          [] e.op = "sspace" -> SetUp("sspace", e.a[1], 0, 0, e.a[2], <<>>)
          [] e.op = "null" -> Null
          [] e.op = "add" -> Add(Drop(e.a, 1))
          [] e.op = "consume" -> Consume(e.a[1])
          [] e.op = "consume_at_most" -> ConsumeAtMost(e.a[1])
          [] e.op = "camhuge" -> ConsumeAtMostHuge(e.a[1])
          [] e.op = "rewind" -> Rewind
          [] e.op = "clear" -> Clear
          [] e.op = "reset" -> Reset
          [] e.op = "repeat" -> Repeat
          [] e.op = "avail" -> Avail
          [] e.op = "rest" -> Rest
          [] OTHER -> FALSE

TNext == /\ l <= Len(TraceLog)
         /\ l' = l + 1
         /\ Step
         /\ e.op \notin {"@", "adopt", "skipped"} => (ev'.o = e.o /\ e.asan = 0)

TSpec == TInit /\ [][TNext]_<<vars, ev, l>>
Accepted == LET n == TLCGet("stats").diameter - 1
            IN PrintT("L;;" \o ToString(n)) /\ n = Len(TraceLog)
=============================================================================
