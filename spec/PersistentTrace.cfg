SPECIFICATION TSpec
CONSTANTS
  Places = {0}
  Sizes = {1}
  Algs = {1}
  AuxSizes = {0}
  Octets = {0}
  MSize = 4
  MaxDepth = 1
INVARIANT CrashVerdict
PROPERTIES StoreThenValid AccessesInsideRegion
POSTCONDITION Accepted
CHECK_DEADLOCK FALSE
