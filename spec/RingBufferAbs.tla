--------------------------- MODULE RingBufferAbs ---------------------------
(* Unbounded-capacity abstraction of RingBuffer.tla: capacity, head, tail and the number n of queued elements
   (the contents are dropped).  Apalache shows that the implementation's size/empty/full agree with the queue's
   length and that n never exceeds the capacity, as an *inductive* invariant for every capacity (C19), which
   complements TLC's exhaustive exploration of capacities up to 4.  (x+1) % cap is written without %.
     apalache-mc check --init=IndInit --inv=IndInv --length=1 RingBufferAbs.tla
     apalache-mc check --init=Init    --inv=IndInv --length=0 RingBufferAbs.tla                              *)
EXTENDS Integers

VARIABLES
    \* @type: Int;
    cap,
    \* @type: Int;
    head,
    \* @type: Int;
    tail,
    \* @type: Bool;
    ovr,
    \* @type: Int;
    n

Inc(x) == IF x + 1 = cap THEN 0 ELSE x + 1
IEmpty == tail = cap
IFull == head = tail
ISize == IF IEmpty THEN 0 ELSE IF tail < head THEN head - tail ELSE (cap - tail) + head
AdvTail(h, t) == IF Inc(t) = h THEN cap ELSE Inc(t)

Init == cap \in Int /\ cap >= 1 /\ head = 0 /\ tail = cap /\ ovr = FALSE /\ n = 0
IndInv == /\ cap >= 1 /\ 0 <= head /\ head < cap /\ 0 <= tail /\ tail <= cap
          /\ 0 <= n /\ n <= cap
          /\ ISize = n /\ (IEmpty <=> n = 0) /\ (IFull <=> n = cap)
IndInit == cap \in Int /\ head \in Int /\ tail \in Int /\ ovr \in BOOLEAN /\ n \in Int /\ IndInv

Put == /\ n' = IF n = cap THEN n ELSE n + 1
       /\ IF IFull /\ ~ovr
          THEN UNCHANGED <<head, tail>>
          ELSE LET t1 == IF IFull THEN AdvTail(head, tail) ELSE tail
                   t2 == IF t1 = cap THEN head ELSE t1
               IN head' = Inc(head) /\ tail' = t2
       /\ UNCHANGED <<cap, ovr>>
Get == /\ n' = IF n = 0 THEN 0 ELSE n - 1
       /\ IF IEmpty THEN UNCHANGED tail ELSE tail' = AdvTail(head, tail)
       /\ UNCHANGED <<cap, head, ovr>>
Clear == n' = 0 /\ tail' = cap /\ UNCHANGED <<cap, head, ovr>>
Override == ovr' \in BOOLEAN /\ UNCHANGED <<cap, head, tail, n>>
Next == Put \/ Get \/ Clear \/ Override
=============================================================================
