------------------------------- MODULE BitOps -------------------------------
(* The bit macros of include/ufw/bit-operations.h (extra X12).  A word is the set of its set bit positions, the three
   families differ in the width W of the word they produce (unsigned 32, long 64, long long 64 on this host).

     BIT(n) = {n}                       ONES(n, o) = n consecutive bits from o (1 <= n <= W; what leaves the word is lost)
     GET(c, n, o) = the field moved to offset zero         MASK(n) = {n mod W}, WORD(n) = the index of the word
     ISSET (all of the mask), ISSET_ANY, SET, SETo (mask moved up by an offset), CLEAR, TOGGLE on a container.

   As the code is: BIT_WORD divides by the width of long also in the unsigned family (see DESIGN.md, section 11).   *)
EXTENDS Emit, FiniteSets, TLC

VARIABLES phase
Width(fam) == IF fam = 0 THEN 32 ELSE 64
WordDiv(fam) == 64                                   \* BIT_WORD, BITL_WORD: bits per long; BITLL_WORD: bits per long long
Bits(W) == 0..W - 1
Ones(W, n, o) == {b \in Bits(W) : b >= o /\ b < o + n}
Get(W, c, n, o) == {b - o : b \in c \cap Ones(W, n, o)}
ShiftUp(W, m, o) == {b + o : b \in {x \in m : x + o < W}}
Toggle(c, m) == (c \ m) \cup (m \ c)

(* a word as four 16-bit numbers, most significant first (TLC's integers have 32 bits) *)
Quarter(c, q) == LET RECURSIVE v(_) v(k) == IF k = 16 THEN 0 ELSE (IF (16 * q + k) \in c THEN 2 ^ k ELSE 0) + v(k + 1) IN v(0)
Quarters(c) == <<Quarter(c, 3), Quarter(c, 2), Quarter(c, 1), Quarter(c, 0)>>

Containers(W) == {{}, Bits(W), {b \in Bits(W) : b % 2 = 0}, {0}, {W - 1}, {b \in Bits(W) : b % 7 = 3 \/ b % 5 = 0}, {b \in Bits(W) : b >= W \div 2}}
Init == phase = <<"b">>
Next == /\ phase[1] = "b"
        /\ \/ \E fam \in 0..2, n \in 0..63 : n < Width(fam) /\ phase' = <<"bit", fam, n>>
           \/ \E fam \in 0..2, n \in 1..64, o \in 0..63 : n <= Width(fam) /\ o < Width(fam) /\ phase' = <<"ones", fam, n, o>>
           \/ \E fam \in 0..2, n \in {1, 2, 5, 8, 16, 31, 32, 33, 63, 64}, o \in {0, 1, 4, 15, 16, 31, 32, 47, 63} :
                 n <= Width(fam) /\ o < Width(fam) /\ \E c \in Containers(Width(fam)) : phase' = <<"get", fam, n, o, c>>
           \/ \E fam \in 0..2, n \in 0..300 : phase' = <<"maskword", fam, n>>
           \/ \E op \in {"isset", "issetany", "set", "clear", "toggle"}, c \in Containers(64), m \in Containers(64) \cup {{5}, {5, 63}} : phase' = <<op, c, m>>
           \/ \E c \in Containers(64), m \in {{0}, {0, 1, 2}, {1, 3}, {0, 15}}, o \in {0, 1, 16, 31, 32, 48, 61, 63} : phase' = <<"seto", c, m, o>>
Spec == Init /\ [][Next]_phase

Result ==
    CASE phase[1] = "bit" -> Quarters({phase[3]})
      [] phase[1] = "ones" -> Quarters(Ones(Width(phase[2]), phase[3], phase[4]))
      [] phase[1] = "get" -> Quarters(Get(Width(phase[2]), phase[5], phase[3], phase[4]))
      [] phase[1] = "maskword" -> Quarters({phase[3] % Width(phase[2])}) \o <<phase[3] \div WordDiv(phase[2])>>
      [] phase[1] = "isset" -> <<IF phase[3] \subseteq phase[2] THEN 1 ELSE 0>>
      [] phase[1] = "issetany" -> <<IF phase[3] \cap phase[2] # {} THEN 1 ELSE 0>>
      [] phase[1] = "set" -> Quarters(phase[2] \cup phase[3])
      [] phase[1] = "clear" -> Quarters(phase[2] \ phase[3])
      [] phase[1] = "toggle" -> Quarters(Toggle(phase[2], phase[3]))
      [] phase[1] = "seto" -> Quarters(phase[2] \cup ShiftUp(64, phase[3], phase[4]))
      [] OTHER -> <<>>

(* what a user relies on *)
CaseInv ==
    /\ phase[1] = "ones" => LET W == Width(phase[2]) n == phase[3] o == phase[4]
                            IN /\ Cardinality(Ones(W, n, o)) = MinOf(n, W - o)
                               /\ Ones(W, n, o) = UNION {{b} : b \in {x \in Bits(W) : x >= o /\ x < o + n}}
    /\ phase[1] = "get" => LET W == Width(phase[2]) n == phase[3] o == phase[4] c == phase[5]
                           IN /\ Get(W, c, n, o) \subseteq 0..n - 1                                   \* a field of n bits
                              /\ \A v \in {{}, {0}, {n - 1}, 0..n - 1} :                               \* insert, then extract: the same field
                                    o + n <= W => Get(W, (c \ Ones(W, n, o)) \cup ShiftUp(W, v, o), n, o) = v
                              /\ (c \ Ones(W, n, o)) \cup ShiftUp(W, Get(W, c, n, o), o) = c          \* and the other way round
    /\ phase[1] = "toggle" => Toggle(Toggle(phase[2], phase[3]), phase[3]) = phase[2]
    /\ phase[1] = "clear" => (phase[2] \ phase[3]) \cap phase[3] = {} /\ ((phase[2] \ phase[3]) \cup (phase[2] \cap phase[3])) = phase[2]
    /\ phase[1] = "maskword" /\ phase[2] > 0 =>                                                        \* bit arrays of long / long long: one bit, one place
          \A n2 \in 0..300 : n2 # phase[3] => <<n2 % 64, n2 \div 64>> # <<phase[3] % 64, phase[3] \div 64>>

Args == CASE phase[1] \in {"bit", "maskword"} -> <<phase[2], phase[3]>>
          [] phase[1] = "ones" -> <<phase[2], phase[3], phase[4]>>
          [] phase[1] = "get" -> <<phase[2], phase[3], phase[4]>> \o Quarters(phase[5])
          [] phase[1] = "seto" -> Quarters(phase[2]) \o Quarters(phase[3]) \o <<phase[4]>>
          [] OTHER -> Quarters(phase[2]) \o Quarters(phase[3])
EmitCases == phase[1] # "b" => EmitCase(phase[1] \o " " \o Join(Args) \o " | " \o Join(Result))
=============================================================================
