SPECIFICATION TSpec
CONSTANTS
  OctetClasses = {0}
POSTCONDITION Accepted
CHECK_DEADLOCK FALSE
