SPECIFICATION Spec
CONSTANTS
  Blocks = {0, 2, 5}
  FBs = {99, 1, 3}
  Reserves = {0, 2}
  MaxW = 4
  MaxPos = 9
VIEW View
INVARIANTS TypeInv KeepsTheStartOfTheFrame NothingLostWithoutNotice ErrorMeansLoss BusyOnlyFromAllocator CountsTheWholeFrame
PROPERTIES ErrorSticks AcceptsEverything
CONSTRAINT EmitInit
ACTION_CONSTRAINT EmitAll
CHECK_DEADLOCK FALSE
