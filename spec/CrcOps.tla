------------------------------- MODULE CrcOps -------------------------------
(* CRC-16/ARC as pure operators (no variables), shared by Crc16.tla, Persistent.tla and Regp.tla.
   Polynomial 0x8005 reflected (0xA001), initial value as given, no final xor.                   *)
EXTENDS Integers, Sequences, Bitwise, SequencesExt

(* reference: one bit at a time *)
StepBit(c) == IF c % 2 = 1 THEN (c \div 2) ^^ 40961 ELSE c \div 2
Step8(c) == StepBit(StepBit(StepBit(StepBit(StepBit(StepBit(StepBit(StepBit(c))))))))
Step(c, d) == Step8(c ^^ d)            \* d enters the low octet of the register

(* table form (what implementations use) *)
Tab == [i \in 0..255 |-> Step8(i)]
StepT(c, d) == (c \div 256) ^^ Tab[(c ^^ d) % 256]

Buffer(c, s) == FoldLeft(LAMBDA acc, d : StepT(acc, d), c, s)
=============================================================================
