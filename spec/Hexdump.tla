------------------------------- MODULE Hexdump -------------------------------
(* hexdump() (src/hexdump.c, extra X08): the text it hands to its output backend, as a sequence of character codes.

   line  :=  address(8 lower-case hex digits of position + display offset) ' '  cells  "  |" ascii "|" LF
   cells :=  per position of the line: an extra ' ' in front of every chunk but the first, then " xx" for an octet or
             three blanks where the last line is padded
   ascii :=  the octets of the line, printable ones (32..126) as themselves, others as '.'
   Refused (EINVAL, nothing printed): no backend, a line shorter than a chunk, zero octets per line or per chunk.
   (With nothing to dump the code prints one line-end "  ||" LF without an address; modelled as it is.)        *)
EXTENDS Emit, SequencesExt, TLC

VARIABLES phase
HexDigit(d) == IF d < 10 THEN 48 + d ELSE 87 + d
RECURSIVE HexN(_, _)
HexN(v, digits) == IF digits = 0 THEN <<>> ELSE HexN(v \div 16, digits - 1) \o <<HexDigit(v % 16)>>
Printable(c) == c >= 32 /\ c <= 126
Ascii(octs) == <<32, 32, 124>> \o [k \in 1..Len(octs) |-> IF Printable(octs[k]) THEN octs[k] ELSE 46] \o <<124, 10>>
Cell(data, i, bol, chunk) ==        \* i, bol 0-based
    (IF i > bol /\ (i - bol) % chunk = 0 THEN <<32>> ELSE <<>>) \o (IF i >= Len(data) THEN <<32, 32, 32>> ELSE <<32>> \o HexN(data[i + 1], 2))
RECURSIVE Cells(_, _, _, _, _)
Cells(data, i, bol, perLine, chunk) == IF i = bol + perLine THEN <<>> ELSE Cell(data, i, bol, chunk) \o Cells(data, i + 1, bol, perLine, chunk)
Line(data, bol, perLine, chunk, doff) ==
    HexN(bol + doff, 8) \o <<32>> \o Cells(data, bol, bol, perLine, chunk) \o Ascii(SubSeq(data, bol + 1, MinOf(Len(data), bol + perLine)))
RECURSIVE Lines(_, _, _, _, _)
Lines(data, bol, perLine, chunk, doff) == IF bol >= Len(data) THEN <<>> ELSE Line(data, bol, perLine, chunk, doff) \o Lines(data, bol + perLine, perLine, chunk, doff)
Dump(data, perLine, chunk, doff) ==
    IF perLine < chunk \/ perLine = 0 \/ chunk = 0 THEN <<-22>>
    ELSE IF data = <<>> THEN <<0>> \o Ascii(<<>>)
    ELSE <<0>> \o Lines(data, 0, perLine, chunk, doff)

Octets == {0, 31, 32, 65, 126, 127, 255}
Offsets == {0, 65536, 2147483632}
Init == phase \in {<<"b", pl, ch>> : pl \in 0..5, ch \in 0..5}
Next == /\ phase[1] = "b"
        /\ \E d \in SeqsUpTo({65, 255}, 4) \cup {<<o>> : o \in Octets} \cup {<<o, 65, 66, 67, 68, 69, 70, o>> : o \in Octets}, off \in Offsets :
              phase' = <<"c", phase[2], phase[3], d, off>>
Spec == Init /\ [][Next]_phase

(* reading a dump back: the hex cells of its lines give the data again, the line count is ceil(n / perLine), every line has the same length *)
SplitLines(txt) == LET RECURSIVE sp(_, _, _)
                       sp(s, cur, acc) == IF s = <<>> THEN acc ELSE IF Head(s) = 10 THEN sp(Tail(s), <<>>, Append(acc, cur)) ELSE sp(Tail(s), Append(cur, Head(s)), acc)
                   IN sp(txt, <<>>, <<>>)
Val(c) == IF c >= 97 THEN c - 87 ELSE c - 48
HexPairs(line, upto) == LET RECURSIVE hp(_, _)       \* octets written as " xx" in line[10..upto]
                            hp(k, acc) == IF k + 2 > upto THEN acc
                                          ELSE IF line[k] = 32 /\ line[k + 1] # 32 THEN hp(k + 3, Append(acc, 16 * Val(line[k + 1]) + Val(line[k + 2])))
                                          ELSE hp(k + 1, acc)
                        IN hp(10, <<>>)
Bar(line) == CHOOSE k \in 1..Len(line) : line[k] = 124 /\ \A j \in 1..k - 1 : line[j] # 124
CaseInv == phase[1] = "c" =>
    LET pl == phase[2]
        ch == phase[3]
        d == phase[4]
        out == Dump(d, pl, ch, phase[5])
    IN IF pl < ch \/ pl = 0 \/ ch = 0 THEN out = <<-22>>
       ELSE LET ls == SplitLines(Tail(out))
            IN /\ out[1] = 0
               /\ (d # <<>> => /\ Len(ls) = (Len(d) + pl - 1) \div pl
                               /\ FoldLeft(LAMBDA acc, l : acc \o HexPairs(l, Bar(l) - 1), <<>>, ls) = d          \* the hex column carries exactly the data
                               /\ \A k \in 1..Len(ls) : Bar(ls[k]) = Bar(ls[1])                                  \* columns line up, also on the padded last line
                               /\ \A k \in 1..Len(ls) : SubSeq(ls[k], 1, 8) = HexN((k - 1) * pl + phase[5], 8))
EmitCases == phase[1] = "c" =>
    EmitCase("dump " \o Join(<<phase[2], phase[3], phase[5] \div 65536, phase[5] % 65536, Len(phase[4])>> \o phase[4]) \o " | " \o Join(Dump(phase[4], phase[2], phase[3], phase[5])))
=============================================================================
