SPECIFICATION Spec
CONSTANTS
  MaxSize = 5
  Alphabet = {1, 2}
VIEW View
INVARIANT BoundsInv
PROPERTIES RefusedUnchanged AddAppends AddFailsIffNoSpace ConsumeOldestInOrder ConsumeFailsIffTooFew
  AtMostReturnsWhatIsThere RewindKeepsUnread EmptyingOps SetRefusesMalformed HugeRefused RefinesAbs
CONSTRAINT EmitInit
ACTION_CONSTRAINT EmitAll
CHECK_DEADLOCK FALSE
