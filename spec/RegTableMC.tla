----------------------------- MODULE RegTableMC -----------------------------
(* Model-checking configuration of RegTable.tla for C05 (and the E0 part of C01-C04): a few fixed tables,
   operand alphabets biased to the constraint boundaries, every checked operation, and out-of-band corruption
   that must be followed by sanitise before checked operations resume.                                  *)
EXTENDS RegTable

CONSTANTS MaxCorrupt, BlockLens, TableIds, MaxLevel,
          Reads       \* TRUE: also block reads and range iterations (C03) from every state

VARIABLE cdepth          \* words corrupted since the last sanitise
mcvars == <<vars, cdepth>>

A(base, size, rd, wr, skip, hasw, kind) == [base |-> base, size |-> size, rd |-> rd, wr |-> wr, skip |-> skip, hasw |-> hasw, kind |-> kind]
R(ty, addr, ck, lo, hi, def) == [ty |-> ty, addr |-> addr, ck |-> ck, lo |-> lo, hi |-> hi, def |-> def]

(* T1 little-endian: u16 range 10..20 | u32 min 0x00010000 | u16 callback *)
T1 == [be |-> 0, areas |-> <<A(0, 4, 1, 1, 0, 1, 0)>>,
       regs |-> <<R(0, 0, 4, <<10>>, <<20>>, <<15>>), R(1, 1, 2, <<1, 0>>, <<0, 0>>, <<1, 0>>), R(0, 3, 5, <<0>>, <<0>>, <<7>>)>>]
V1 == <<{<<9>>, <<10>>, <<20>>, <<21>>}, {<<0, 65535>>, <<1, 0>>, <<1, 1>>}, {<<1>>, <<2>>, <<65535>>}>>
(* T2 big-endian: s16 range -2..3 | u32 max 0x0000FFFF in a second, callback-backed area | hole between *)
T2 == [be |-> 1, areas |-> <<A(1, 1, 1, 1, 0, 1, 0), A(3, 2, 1, 1, 0, 1, 1)>>,
       regs |-> <<R(3, 1, 4, <<65534>>, <<3>>, <<0>>), R(1, 3, 3, <<0, 0>>, <<0, 65535>>, <<0, 5>>)>>]
V2 == <<{<<65533>>, <<65534>>, <<3>>, <<4>>, <<32768>>}, {<<0, 65535>>, <<1, 0>>, <<0, 0>>}>>
(* T3 little-endian: f32 range -1.0..2.5 | u16 plain; second area read-only by flag with a u16 max register *)
T3 == [be |-> 0, areas |-> <<A(2, 3, 1, 1, 0, 1, 0), A(5, 1, 1, 0, 0, 1, 0)>>,
       regs |-> <<R(6, 2, 4, <<49024, 0>>, <<16416, 0>>, <<16256, 0>>), R(0, 4, 0, <<0>>, <<0>>, <<0>>), R(0, 5, 3, <<0>>, <<9>>, <<9>>)>>]
V3 == <<{<<49024, 0>>, <<16416, 0>>, <<16416, 1>>, <<32704, 0>>, <<0, 1>>, <<32768, 0>>}, {<<0>>, <<65535>>}, {<<9>>, <<10>>}>>
(* T4 big-endian: u64 min 0x0000000100000000 at an odd address | s16 min 5 *)
T4 == [be |-> 1, areas |-> <<A(1, 6, 1, 1, 0, 1, 0)>>,
       regs |-> <<R(2, 1, 2, <<0, 1, 0, 0>>, <<0, 0, 0, 0>>, <<0, 1, 0, 0>>), R(3, 6, 2, <<5>>, <<0>>, <<5>>)>>]
V4 == <<{<<0, 0, 65535, 65535>>, <<0, 1, 0, 0>>, <<65535, 65535, 65535, 65535>>}, {<<4>>, <<5>>, <<32768>>}>>
(* T5 little-endian: a write-only area (reads as zero) with a gap between its registers, directly followed by a readable one *)
T5 == [be |-> 0, areas |-> <<A(1, 3, 0, 1, 0, 1, 0), A(4, 2, 1, 1, 0, 1, 0)>>,
       regs |-> <<R(0, 1, 3, <<0>>, <<100>>, <<42>>), R(0, 3, 0, <<0>>, <<0>>, <<7>>), R(1, 4, 0, <<0, 0>>, <<0, 0>>, <<1, 2>>)>>]
V5 == <<{<<100>>, <<101>>}, {<<65535>>}, {<<3, 4>>}>>
(* T6 big-endian: two registers in a two-word area, directly followed by a writable area without registers *)
T6 == [be |-> 1, areas |-> <<A(0, 2, 1, 1, 0, 1, 0), A(2, 1, 1, 1, 0, 1, 0)>>,
       regs |-> <<R(0, 0, 0, <<0>>, <<0>>, <<1>>), R(0, 1, 4, <<0>>, <<10>>, <<5>>)>>]
V6 == <<{<<7>>}, {<<10>>, <<11>>}>>
(* T7 little-endian: a zero-sized area on the seam of two directly adjacent areas; a u32 ends at the seam, a u32 starts behind it *)
T7 == [be |-> 0, areas |-> <<A(1, 2, 1, 1, 0, 1, 0), A(3, 0, 1, 1, 0, 1, 0), A(3, 2, 1, 1, 0, 1, 1)>>,
       regs |-> <<R(1, 1, 0, <<0, 0>>, <<0, 0>>, <<1, 2>>), R(1, 3, 3, <<0, 0>>, <<0, 9>>, <<0, 3>>)>>]
V7 == <<{<<5, 6>>}, {<<0, 9>>, <<0, 10>>}>>
Tables == <<T1, T2, T3, T4, T5, T6, T7>>
Vals == <<V1, V2, V3, V4, V5, V6, V7>>
Word2 == <<10, 3, 16416, 5, 9, 999, 77>>      \* one more word per table for the longer blocks
Which == CHOOSE i \in 1..Len(Tables) : Tables[i] = d
WordsOf(i) == UNION {{v[k] : k \in 1..Len(v)} : v \in UNION {Vals[i][j] : j \in 1..Len(Vals[i])}} \cup {0, 65535}
Window(t) == MaxOf(0, t.areas[1].base - 1)..(AEnd(t.areas[NA(t)]))

MCInit == Init /\ cdepth = 0
Clean(act) == cdepth = 0 /\ act /\ cdepth' = 0
MCNext ==
    \/ (d = <<>> /\ \E i \in TableIds : TInit(Tables[i]) /\ cdepth' = 0)
    \/ (inited /\ LET i == Which IN
          \/ Clean(\E h \in 0..NR(d) - 1 : \E v \in Vals[i][h + 1] : Set(h, d.regs[h + 1].ty, v, 0))
          \/ Clean(\E h \in {NR(d), NR(d) + 1} : Set(h, 0, <<1>>, 0))
          \/ Clean(\E h \in 0..NR(d) - 1 : Set(h, (d.regs[h + 1].ty + 3) % 8, Fill(Size((d.regs[h + 1].ty + 3) % 8), 1), 0))
          \/ Clean(\E h \in 0..NR(d) - 1, isSet \in BOOLEAN : \E v \in Vals[i][h + 1] : Bit(h, d.regs[h + 1].ty, v, isSet))
          \/ Clean(\E h \in 0..NR(d) - 1, isSet \in BOOLEAN :                                   \* operand of another type (same and different width)
                      \E ty \in {(d.regs[h + 1].ty + 3) % 8, (d.regs[h + 1].ty + 4) % 8} : Bit(h, ty, Fill(Size(ty), 1), isSet))
          \/ Clean(\E h \in {NR(d), NR(d) + 1}, isSet \in BOOLEAN : Bit(h, 0, <<1>>, isSet))           \* no such register
          \/ Clean(\E addr \in Window(d), n \in BlockLens : \E ws \in {s \in SeqsUpTo(IF n = 1 THEN WordsOf(i) ELSE {0, 1, 65535, Word2[i]}, n) : Len(s) = n} : BlockWrite(addr, ws))
          \/ Clean(\E h \in 0..NR(d) : Get(h))
          \/ (Reads /\ Clean(\E addr \in Window(d), n \in 0..4 : BlockRead(addr, n)))
          \/ (Reads /\ Clean(\E addr \in Window(d), off \in 0..4, s \in {<<>>, <<1>>, <<-1>>, <<0, 1>>, <<0, -1>>, <<0, 0, -1>>} : Foreach(addr, off, s)))
          \/ (Sanitise /\ cdepth' = 0)
          \/ (cdepth < MaxCorrupt /\ \E addr \in Window(d), w \in {0, 65535, 1} : Corrupt(addr, w) /\ cdepth' = cdepth + 1))
MCSpec == MCInit /\ [][MCNext]_<<mcvars, ev>>

Bounded == TLCGet("level") <= MaxLevel

(* C05 *)
ConstraintInv == (inited /\ cdepth = 0) => ConstrainedOK(d, mem)
BitOpsExact == [][ev'.op \in {"bitset", "bitclr"} /\ inited /\ rc(ev') = OK =>
                     LET h == ev'.a[1]
                         r == d.regs[h + 1]
                         v == LastN(SubSeq(ev'.a, 3, 6), Size(r.ty))
                         old == RegValue(d, mem, r)
                     IN /\ IsUnsigned(r.ty)
                        /\ RegValue(d, mem', r) = IF ev'.op = "bitset" THEN WOr(old, v) ELSE WAndNot(old, v)
                        /\ \A j \in 1..NR(d) : j # h + 1 => RegValue(d, mem', d.regs[j]) = RegValue(d, mem, d.regs[j])]_<<mcvars, ev>>

(* C03 restated without the operators the actions are built from *)
ReadsFlat == [][ev'.op = "bread" /\ inited =>
                   LET addr == ev'.a[1]
                       n == ev'.a[2]
                       o == ev'.o
                       mapped(a) == \E i \in 1..NA(d) : d.areas[i].base <= a /\ a < d.areas[i].base + d.areas[i].size
                       areaof(a) == CHOOSE i \in 1..NA(d) : d.areas[i].base <= a /\ a < d.areas[i].base + d.areas[i].size
                   IN /\ (o[1] = OK <=> \A k \in 0..n - 1 : mapped(addr + k))
                      /\ (o[1] = OK => /\ Len(o) = 2 + n
                                       /\ \A k \in 0..n - 1 : o[3 + k] = IF d.areas[areaof(addr + k)].rd = 1
                                                                        THEN mem[areaof(addr + k)][addr + k - d.areas[areaof(addr + k)].base + 1] ELSE 0)
                      /\ (o[1] # OK => /\ o[1] = NOENTRY /\ ~mapped(o[2]) /\ addr <= o[2] /\ o[2] < addr + n
                                       /\ \A a \in addr..o[2] - 1 : mapped(a))]_<<mcvars, ev>>
IterationExact == [][ev'.op = "foreach" /\ inited /\ ev'.a[2] > 0 =>
                        LET addr == ev'.a[1]
                            off == ev'.a[2]
                            script == Drop(ev'.a, 3)
                            o == ev'.o
                            seen == Drop(o, 2)                                                     \* handles (C numbering) in call order
                            over == {h \in 0..NR(d) - 1 : d.regs[h + 1].addr < addr + off /\ addr < d.regs[h + 1].addr + Size(d.regs[h + 1].ty)}
                            ret(k) == IF k <= Len(script) THEN script[k] ELSE 0
                        IN /\ \A k \in 1..Len(seen) : seen[k] \in over                             \* only registers overlapping the range
                           /\ \A k \in 1..Len(seen) - 1 : seen[k] < seen[k + 1]                      \* ascending
                           /\ \A h \in over : (Len(seen) > 0 /\ h < seen[Len(seen)]) => \E k \in 1..Len(seen) : seen[k] = h    \* none skipped
                           /\ \A k \in 1..Len(seen) - 1 : ret(k) = 0                                \* it went on only after a zero result
                           /\ (Len(seen) = 0 => over = {} /\ o[1] = OK)
                           /\ (Len(seen) > 0 /\ ret(Len(seen)) = 0 => o[1] = OK /\ \A h \in over : h <= seen[Len(seen)])   \* ran to the end
                           /\ (Len(seen) > 0 /\ ret(Len(seen)) > 0 => o[1] = OK)
                           /\ (Len(seen) > 0 /\ ret(Len(seen)) < 0 => o[1] = REFUSED /\ o[2] = d.regs[seen[Len(seen)] + 1].addr)]_<<mcvars, ev>>

(* E1 plumbing: the initial state is "no table"; tinit carries the flattened description *)
KeyOf(dd, ii, mm, tt, cc) == ToString(<<IF dd = <<>> THEN 0 ELSE CHOOSE i \in 1..Len(Tables) : Tables[i] = dd, ii, mm, SetToSortSeq(tt, LAMBDA x, y : x < y), cc>>)
Key == KeyOf(d, inited, mem, touched, cdepth)
View == <<d, inited, mem, touched, cdepth>>
AltSeq(S) == SetToSeq(S)
EmitAll == PrintT("E;;" \o Key \o ";;" \o KeyOf(d', inited', mem', touched', cdepth') \o ";;"
                  \o ev'.op \o " " \o Join(ev'.a) \o " | " \o JoinAlts(AltSeq(ev'.alts)))
EmitInit == ev.op = "boot" => EmitInitial(Key)
=============================================================================
