SPECIFICATION Spec
CONSTANTS
  MaxDepth = 2
  MaxItems = 2
  MaxLen = 6
INVARIANT CaseInv
CONSTRAINT EmitCases
CHECK_DEADLOCK FALSE
