SPECIFICATION Spec
CONSTANTS
  MaxDepth = 3
  MaxItems = 2
  MaxLen = 6
INVARIANT CaseInv
CONSTRAINT EmitCases
CHECK_DEADLOCK FALSE
