SPECIFICATION Spec
CONSTANTS
  MaxBurst = 9
  TwoBitFrames = {3, 7}
  EmitEvery = 11
INVARIANT NeverOk
CONSTRAINT EmitCases
CHECK_DEADLOCK FALSE
