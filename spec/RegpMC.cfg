SPECIFICATION Spec
CONSTANTS
  MaxBurst = 9
  TwoBitFrames = {3, 7}
INVARIANT NeverOk
CHECK_DEADLOCK FALSE
