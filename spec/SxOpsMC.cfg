SPECIFICATION Spec
CONSTANTS
  NSlots = 2
  MaxNodes = 5
VIEW View
PROPERTIES NodesConserved PopThenConsIsIdentity AppendKeepsElements RefusedKeepsEverything
CONSTRAINT EmitInit
ACTION_CONSTRAINT EmitAll
CHECK_DEADLOCK FALSE
