-------------------------------- MODULE Slip --------------------------------
(* RFC 1055 (SLIP) framing as implemented by src/rfc1055.c, property C12.

   END = 192 delimits frames, ESC = 219 introduces ESC_END = 220 (a data END) or ESC_ESC = 221
   (a data ESC).  Classic mode: frame = escaped payload, END.  Start-of-frame mode: END, escaped
   payload, END.

   The decoder is modelled at the granularity of one source octet (Get) and one sink octet (Put) so
   that an error of the source or the sink can strike at every position; a decode *call* is the
   recursive operator Call, a whole *run* (calls repeated until the source is exhausted) is Run.
   A "case" p fixes everything the environment decides:
      sof, inp (octets the source will deliver), errpos/errcode (the source reports errcode once,
      instead of delivering octet number errpos; 0 = never), sinkat/sinkcode (the sink refuses its
      sinkat-th octet once with sinkcode; 0 = never).
   Observation of one run (harness/slip.c, event "run"):
      ncalls, then per call:  rc  srcpos  outlen  out...
   rc = 1 frame complete, -84 illegal sequence, -61 source exhausted, or the injected code.        *)
EXTENDS Emit, SequencesExt

CONSTANTS Classes,       \* octets used by the model: END, ESC, ESC_END, ESC_ESC and one other
          MaxRaw,        \* raw decoder inputs up to this length, without injected errors
          MaxRawErr,     \* ... with an injected source or sink error at every position
          MaxPayload,    \* encoder payloads up to this length
          MaxGarbage     \* garbage prefixes in the start-of-frame resynchronisation family

END == 192
ESC == 219
ESC_END == 220
ESC_ESC == 221
EILSEQ == -84
ENODATA == -61
SRCERR == -5
SINKERR == -28

VARIABLES phase, ev
vars == <<phase>>

---------------------------------------------------------------------------
(* encoder *)
EscOctet(o) == IF o = END THEN <<ESC, ESC_END>> ELSE IF o = ESC THEN <<ESC, ESC_ESC>> ELSE <<o>>
RECURSIVE Escape(_)
Escape(s) == IF s = <<>> THEN <<>> ELSE EscOctet(Head(s)) \o Escape(Tail(s))
Encode(sof, s) == (IF sof = 1 THEN <<END>> ELSE <<>>) \o Escape(s) \o <<END>>

(* encoder run with error injection: what reached the sink, and the return code.  The sink receives
   the opening END, each (escaped) payload octet as one put of 1 or 2 octets, and the closing END.  *)
RECURSIVE EncPuts(_, _, _, _)
\* puts: sequence of chunks still to be written; k: chunks accepted so far
EncPuts(puts, k, sinkat, acc) ==
    IF puts = <<>> THEN [rc |-> 0, out |-> acc]
    ELSE IF sinkat # 0 /\ k + 1 = sinkat THEN [rc |-> SINKERR, out |-> acc]
    ELSE EncPuts(Tail(puts), k + 1, sinkat, acc \o Head(puts))
EncRun(sof, s, errpos, sinkat) ==
    \* source error at payload octet errpos (1-based) stops the encoder before the closing END
    LET upto == IF errpos = 0 THEN s ELSE Take(s, errpos - 1)
        chunks == (IF sof = 1 THEN <<<<END>>>> ELSE <<>>) \o [i \in 1..Len(upto) |-> EscOctet(upto[i])]
                  \o (IF errpos = 0 THEN <<<<END>>>> ELSE <<>>)
        r == EncPuts(chunks, 0, sinkat, <<>>)
    IN IF r.rc < 0 THEN r ELSE IF errpos # 0 THEN [rc |-> SRCERR, out |-> r.out] ELSE r

---------------------------------------------------------------------------
(* decoder: one call.  c = [st, pos, srcArmed, puts, sinkArmed, out] *)
Get(p, c) == IF c.srcArmed /\ p.errpos # 0 /\ c.pos + 1 = p.errpos THEN "err"
             ELSE IF c.pos >= Len(p.inp) THEN "end" ELSE "octet"
Cur(p, c) == p.inp[c.pos + 1]
After(sof) == IF sof = 1 THEN "SFS" ELSE "N"
Ret(c, rc) == [rc |-> rc, c |-> c]
SrcFail(p, c) == IF Get(p, c) = "err" THEN Ret([c EXCEPT !.srcArmed = FALSE], p.errcode) ELSE Ret(c, ENODATA)

RECURSIVE Call(_, _)
PutThen(p, c, o) ==   \* c already advanced past the consumed source octets
    IF c.sinkArmed /\ p.sinkat # 0 /\ c.puts + 1 = p.sinkat
    THEN Ret([c EXCEPT !.sinkArmed = FALSE], p.sinkcode)
    ELSE Call(p, [c EXCEPT !.puts = c.puts + 1, !.out = Append(c.out, o)])
Call(p, c) ==
    IF Get(p, c) # "octet" THEN SrcFail(p, c)
    ELSE LET o == Cur(p, c)
             c1 == [c EXCEPT !.pos = c.pos + 1]
         IN CASE c.st = "SFS" ->
                   IF o = END THEN Call(p, [c1 EXCEPT !.st = "N"])
                   ELSE Ret([c1 EXCEPT !.st = "SFE"], EILSEQ)
              [] c.st = "SFE" ->
                   IF o = END THEN Call(p, [c1 EXCEPT !.st = After(p.sof)])
                   ELSE Call(p, c1)
              [] OTHER ->   \* "N"
                   IF o = END THEN Ret([c1 EXCEPT !.st = After(p.sof)], 1)
                   ELSE IF o = ESC THEN
                        IF Get(p, c1) # "octet" THEN SrcFail(p, c1)     \* the ESC is gone
                        ELSE LET o2 == Cur(p, c1)
                                 c2 == [c1 EXCEPT !.pos = c1.pos + 1]
                             IN IF o2 = ESC_END THEN PutThen(p, c2, END)
                                ELSE IF o2 = ESC_ESC THEN PutThen(p, c2, ESC)
                                ELSE Ret([c2 EXCEPT !.st = IF o2 = END THEN After(p.sof) ELSE "SFE"], EILSEQ)
                   ELSE PutThen(p, c1, o)

(* a run: calls until the source is exhausted; list of [rc, pos, out] *)
RECURSIVE RunFrom(_, _, _)
RunFrom(p, c, n) ==
    LET r == Call(p, [c EXCEPT !.out = <<>>])
        this == [rc |-> r.rc, pos |-> r.c.pos, out |-> r.c.out]
    IN IF r.rc = ENODATA \/ n >= 40 THEN <<this>> ELSE <<this>> \o RunFrom(p, r.c, n + 1)
Start(sof) == [st |-> IF sof = 1 THEN "SFS" ELSE "N", pos |-> 0, srcArmed |-> TRUE, puts |-> 0,
               sinkArmed |-> TRUE, out |-> <<>>]
Run(p) == RunFrom(p, Start(p.sof), 1)
Case(sof, inp, errpos, sinkat) == [sof |-> sof, inp |-> inp, errpos |-> errpos, errcode |-> SRCERR,
                                   sinkat |-> sinkat, sinkcode |-> SINKERR]
Plain(sof, inp) == Case(sof, inp, 0, 0)

RECURSIVE FlatRun(_)
FlatRun(rs) == IF rs = <<>> THEN <<>>
               ELSE <<Head(rs).rc, Head(rs).pos, Len(Head(rs).out)>> \o Head(rs).out \o FlatRun(Tail(rs))
RunObs(p) == LET rs == Run(p) IN <<Len(rs)>> \o FlatRun(rs)
Delivered(rs) == LET ix == SelectSeq([i \in 1..Len(rs) |-> i], LAMBDA i : rs[i].rc = 1)
                 IN [k \in 1..Len(ix) |-> rs[ix[k]].out]

---------------------------------------------------------------------------
(* reference reading of a raw stream, independent of the decoder above *)
RECURSIVE Segments(_, _)
\* terminated segments (octets between delimiters), in order
Segments(s, cur) == IF s = <<>> THEN <<>>
                    ELSE IF Head(s) = END THEN <<cur>> \o Segments(Tail(s), <<>>)
                    ELSE Segments(Tail(s), Append(cur, Head(s)))
RECURSIVE WellFormed(_)
WellFormed(seg) == IF seg = <<>> THEN TRUE
                   ELSE IF Head(seg) = ESC
                        THEN Len(seg) >= 2 /\ seg[2] \in {ESC_END, ESC_ESC} /\ WellFormed(Drop(seg, 2))
                        ELSE WellFormed(Tail(seg))
RECURSIVE Unescape(_)
Unescape(seg) == IF seg = <<>> THEN <<>>
                 ELSE IF Head(seg) = ESC THEN <<IF seg[2] = ESC_END THEN END ELSE ESC>> \o Unescape(Drop(seg, 2))
                 ELSE <<Head(seg)>> \o Unescape(Tail(seg))
ClassicFrames(s) == LET sg == Segments(s, <<>>)
                        ok == SelectSeq(sg, WellFormed)
                    IN [i \in 1..Len(ok) |-> Unescape(ok[i])]
NonEmpty(fs) == SelectSeq(fs, LAMBDA f : f # <<>>)

---------------------------------------------------------------------------
(* C12 on the model.  Every TLC state below is one *case* (an input, an error injection); the
   properties are evaluated per case as state invariants so that TLC spreads them over its workers. *)
Raw(n) == SeqsUpTo(Classes, n)
Payloads == SeqsUpTo(Classes, MaxPayload)
Short == SeqsUpTo(Classes, 2)
One == SeqsUpTo(Classes, 1)
Count(s, x) == Len(SelectSeq(s, LAMBDA y : y = x))

(* payload pl: round trip with end-of-frame by the first call, delimiter only delimits, length bound *)
PayloadOK(sof, pl) ==
    LET en == Encode(sof, pl)
        rs == Run(Plain(sof, en))
    IN /\ Delivered(rs) = <<pl>> /\ rs[1].rc = 1
       /\ Count(en, END) = 1 + sof
       /\ Len(en) <= 2 * Len(pl) + 1 + sof
       /\ EncRun(sof, pl, 0, 0) = [rc |-> 0, out |-> en]
ConcatOK(sof, a, b, c) ==
    Delivered(Run(Plain(sof, Encode(sof, a) \o Encode(sof, b) \o Encode(sof, c)))) = <<a, b, c>>
(* classic: exactly the well-formed terminated segments are delivered, intact and in order -
   in particular every well-formed frame after the delimiter that ends a corrupted prefix *)
ResyncClassicOK(s) == Delivered(Run(Plain(0, s))) = ClassicFrames(s)
(* start-of-frame: after arbitrary garbage at most the first following non-empty frame is lost *)
ResyncSofOK(g, a, b, c) ==
    LET ne == NonEmpty(<<a, b, c>>)
        must == IF ne = <<>> THEN <<>> ELSE Tail(ne)
        got == NonEmpty(Delivered(Run(Plain(1, g \o Encode(1, a) \o Encode(1, b) \o Encode(1, c)))))
    IN IsSuffix(must, got)
(* never emits more than it consumed; errors pass through unchanged; only the documented codes *)
RunSane(p) == LET rs == Run(p)
              IN /\ \A i \in 1..Len(rs) :
                      /\ Len(rs[i].out) <= rs[i].pos - (IF i = 1 THEN 0 ELSE rs[i - 1].pos)
                      /\ rs[i].rc \in {1, EILSEQ, ENODATA, SRCERR, SINKERR}
                 /\ (p.errpos # 0 <=> \E i \in 1..Len(rs) : rs[i].rc = SRCERR)
                 /\ ((\E i \in 1..Len(rs) : rs[i].rc = SINKERR) => p.sinkat # 0)
                 /\ rs[Len(rs)].rc = ENODATA /\ rs[Len(rs)].pos = Len(p.inp)

---------------------------------------------------------------------------
(* E1: the case tables, one TLC state per case *)
RunLine(p) == "run " \o Join(<<p.sof, p.errpos, p.errcode, p.sinkat, p.sinkcode, Len(p.inp)>> \o p.inp)
              \o " | " \o Join(RunObs(p))
EncLine(sof, pl, ep, sk) == LET r == EncRun(sof, pl, ep, sk)
                            IN "enc " \o Join(<<sof, ep, SRCERR, sk, SINKERR, Len(pl)>> \o pl)
                               \o " | " \o Join(<<r.rc, Len(r.out)>> \o r.out)
(* buckets (initial states) spread the enumeration over TLC's workers: kind x sof x first octet *)
First(s) == IF s = <<>> THEN 0 ELSE s[1]
Firsts == Classes \cup {0}
Init == /\ phase \in {<<"b", k, sof, f>> : k \in {"run", "runerr", "enc", "concat", "resync"}, sof \in {0, 1}, f \in Firsts}
        /\ ev = Boot
Next == /\ phase[1] = "b" /\ ev' = Boot
        /\ LET kind == phase[2]
               sof == phase[3]
               f == phase[4]
           IN \/ kind = "run" /\ \E s \in Raw(MaxRaw) : First(s) = f /\ phase' = <<"run", sof, s>>
              \/ kind = "runerr" /\ \E s \in Raw(MaxRawErr), ep \in 0..MaxRawErr, sk \in 0..MaxRawErr :
                    /\ First(s) = f /\ ep <= Len(s) /\ sk <= Len(s) /\ (ep > 0 \/ sk > 0)
                    /\ phase' = <<"runerr", sof, s, ep, sk>>
              \/ kind = "enc" /\ \E pl \in Payloads, ep \in 0..MaxPayload, sk \in 0..MaxPayload + 2 :
                    /\ First(pl) = f /\ ep <= Len(pl) /\ sk <= Len(pl) + 1 + sof
                    /\ ((ep = 0 /\ sk = 0) \/ Len(pl) <= MaxRawErr)
                    /\ phase' = <<"enc", sof, pl, ep, sk>>
              \/ kind = "concat" /\ \E a \in Short, b \in Short, c \in Short :
                    First(a) = f /\ phase' = <<"concat", sof, a, b, c>>
              \/ kind = "resync" /\ \E g \in Raw(MaxGarbage), a \in Short, b \in One, c \in One :
                    First(g) = f /\ Len(g) % 2 = sof /\ phase' = <<"resync", g, a, b, c>>
Spec == Init /\ [][Next]_<<vars, ev>>

CaseOK ==
    CASE phase[1] = "run" -> RunSane(Plain(phase[2], phase[3])) /\ (phase[2] = 0 => ResyncClassicOK(phase[3]))
      [] phase[1] = "runerr" -> RunSane(Case(phase[2], phase[3], phase[4], phase[5]))
      [] phase[1] = "enc" -> (phase[4] = 0 /\ phase[5] = 0) => PayloadOK(phase[2], phase[3])
      [] phase[1] = "concat" -> ConcatOK(phase[2], phase[3], phase[4], phase[5])
      [] phase[1] = "resync" -> ResyncSofOK(phase[2], phase[3], phase[4], phase[5])
      [] OTHER -> TRUE
EmitCases ==
    CASE phase[1] = "run" -> EmitCase(RunLine(Plain(phase[2], phase[3])))
      [] phase[1] = "runerr" -> EmitCase(RunLine(Case(phase[2], phase[3], phase[4], phase[5])))
      [] phase[1] = "enc" -> EmitCase(EncLine(phase[2], phase[3], phase[4], phase[5]))
      [] OTHER -> TRUE
=============================================================================
