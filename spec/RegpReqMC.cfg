SPECIFICATION Spec
CONSTANT MaxN = 2
INVARIANT C06Holds
CONSTRAINT EmitCases
CHECK_DEADLOCK FALSE
