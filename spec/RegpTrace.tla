------------------------------ MODULE RegpTrace ------------------------------
(* Validates executions recorded from the real register protocol code (harness/regp.c) against Regp.tla.

   emit kind tr mem16 seq0 ...   the library emits a frame; a peer instance of the library receives it
   rx tr mem16 cap allocfail verdict vhi vlo nd <data> nw <wire>
                                 one framed unit arrives; regp_recv, regp_process, regp_free; the backend
                                 answers every call with (verdict, vaddr) and, for reads, the data octets   *)
EXTENDS Regp, Json, IOUtils
TraceLog == ndJsonDeserialize(IOEnv.TRACE)
VARIABLE l
e == TraceLog[l]
TInit == Init /\ l = 1

(* ------------------------------------------------------------------ emit events (C08) *)
EmitOK == LET args == e.a
          IN /\ Classes(EmittedFrameOf(args)) = {C_OK}                        \* the spec's own reading accepts it
             /\ e.o = EmitObs(args)

(* emitf failat <emit arguments>: the emission goes into a sink that refuses one of its calls; then a plain read request
   is sent into a working sink.  o = rc1 seq1 rc2 seq2 n1 <octets accepted during the first emission>.
   What reached the sink is a prefix of the prescribed wire image; a request whose sequence number reached the wire has
   used that number up, so the next request carries the following one (whether a request of which nothing went out
   uses its number up is left open: R4); responses never touch the session sequence number.                     *)
EmitFOK == LET args == Tail(e.a)
               W == Wire(args[2], EmittedFrameOf(args))
               seq0 == args[4]
               isReq == args[1] \in 1..4
               rc1 == e.o[1]
               s1 == e.o[2]
               n1 == e.o[5]
           IN /\ n1 <= Len(W) /\ Drop(e.o, 5) = Take(W, n1)
              /\ rc1 \in {0, -1} /\ (rc1 = 0 => n1 = Len(W))
              /\ IF isReq THEN /\ s1 \in {seq0, (seq0 + 1) % 65536}
                               /\ (rc1 = 0 \/ n1 >= 12 => s1 = (seq0 + 1) % 65536)
                          ELSE s1 = seq0
              /\ e.o[3] = 0 /\ e.o[4] = (s1 + 1) % 65536

(* ------------------------------------------------------------------ helpers outside the listed properties (extra X09)
   isect a1 s1 a2 s2 | address size nonempty   intersection of two address ranges (size 0: none); the library's
                                               regp_empty_intersection() answers TRUE exactly when the intersection is NOT empty
   pred type | valid response read-request write-request read-response write-response meta    frame classification   *)
IsectObs(a1, s1, a2, s2) == LET lo == IF a1 > a2 THEN a1 ELSE a2
                                h1 == a1 + s1 - 1
                                h2 == a2 + s2 - 1
                                hi == IF h1 < h2 THEN h1 ELSE h2
                            IN IF hi >= lo THEN <<lo, hi - lo + 1, 1>> ELSE <<0, 0, 0>>
PredObs(ty) == <<IF ty = 99 THEN 0 ELSE 1,          \* (99 stands for RP_FRAME_INVALID)
                 IF ty \in {T_RRESP, T_WRESP} THEN 1 ELSE 0,
                 IF ty = T_RREQ THEN 1 ELSE 0, IF ty = T_WREQ THEN 1 ELSE 0, IF ty = T_RRESP THEN 1 ELSE 0, IF ty = T_WRESP THEN 1 ELSE 0,
                 IF ty = T_META THEN 1 ELSE 0>>

(* ------------------------------------------------------------------ rx events (C06, C07, C09) *)
MustFail == e.a[1] = 1        \* set by the generator for corruptions inside the family the CRC guarantees to be caught
                              \* (3 = burst across a checksum-field boundary: claimed by C07, not guaranteed - open finding)
RTr == e.a[2]
Cfg == [tr |-> e.a[2], mem16 |-> e.a[3] >= 1, cap |-> e.a[4], void |-> e.a[3] = 2]       \* memory 0: 8 bit, 1: 16 bit, 2: none attached (16-bit default)
AllocFail == e.a[5] % 2 = 1        \* (bit 1 of the field selects the slab-style allocator in the harness, bits 2-3 the source flavour)
SinkFail == (e.a[5] \div 16) % 2 = 1  \* bit 4: the sink the replies go to refuses a call
Verdict == e.a[6]
VAddr == <<e.a[7], e.a[8]>>
ND == e.a[9]
Data == SubSeq(e.a, 10, 9 + ND)
WireIn == Drop(e.a, 10 + ND)

RxAllowed == RxAllowedFor(Cfg, AllocFail, Verdict, VAddr, Data, WireIn)

(* a cycle of a persistent session (several framed units in one stream, one instance): as rx, and the cycle must
   have taken exactly the unit from the stream - the first observation is the number of octets consumed *)
RxnOK == LET A == RxAllowed
             rest == Tail(e.o)
             balanced == rest[1] = 0 /\ rest[4] = rest[3] /\ rest[3] \in {0, 1} /\ rest[5] = 0 /\ rest[6] = 0 /\ rest[7] = 0
         IN /\ e.o[1] = Len(WireIn)
            /\ IF A = {<<-9>>} THEN balanced ELSE rest \in A
(* when the reply cannot be sent what the caller sees is not specified; what is: every block obtained is released exactly once,
   nothing is released twice, nothing stays behind, and a frame that failed reception still causes no memory access *)
RxSinkFailOK == LET u == Unframe(RTr, WireIn)
                    executable == u.st = "ok" /\ Len(u.frame) <= Cfg.cap /\ ~AllocFail /\ C_OK \in Classes(u.frame) /\ IsRequest(u.frame)
                IN /\ e.o[3] \in {0, 1} /\ e.o[4] = e.o[3] /\ e.o[5] = 0 /\ e.o[6] = 0
                   /\ e.o[7] \in {0, 1} /\ (e.o[7] = 1 => executable)
RxOK == LET A == RxAllowed
            u == Unframe(RTr, WireIn)
           \* where the reply is not specified (marker -9) the run must still be resource-exact and touch no memory backend
           balanced == e.o[1] = 0 /\ e.o[4] = e.o[3] /\ e.o[3] \in {0, 1} /\ e.o[5] = 0 /\ e.o[6] = 0 /\ e.o[7] = 0
        IN /\ IF A = {<<-9>>} THEN balanced ELSE e.o \in A
           /\ (MustFail /\ u.st = "ok" /\ Len(u.frame) <= Cfg.cap => C_OK \notin Classes(u.frame))

(* C07: a frame the generator marked as a corruption inside the guaranteed family must not classify as ok -
   this is the CRC-16 guarantee, evaluated on the specification with the real polynomial *)
TNext == /\ l <= Len(TraceLog) /\ l' = l + 1
         /\ CASE e.op = "@" -> TRUE
              [] e.op = "sizeof" -> TRUE
              [] e.op = "emit" -> EmitOK /\ e.asan = 0
              [] e.op = "emitf" -> EmitFOK /\ e.asan = 0
              [] e.op = "rx" -> (IF SinkFail THEN RxSinkFailOK ELSE RxOK) /\ e.asan = 0
              [] e.op = "rxn" -> RxnOK /\ e.asan = 0
              [] e.op = "rxopen" -> TRUE
              [] e.op = "isect" -> e.o = IsectObs(e.a[1], e.a[2], e.a[3], e.a[4])
              [] e.op = "pred" -> e.o = PredObs(e.a[1])
              [] OTHER -> FALSE
         /\ UNCHANGED <<vars, ev>>
TSpec == TInit /\ [][TNext]_<<vars, ev, l>>
Accepted == LET n == TLCGet("stats").diameter - 1
            IN PrintT("L;;" \o ToString(n)) /\ n = Len(TraceLog)
=============================================================================
