-------------------------------- MODULE Regp --------------------------------
(* The ufw register protocol (doc/regp.txt, src/register-protocol.c), properties C06-C09.

   Everything on the wire is octets.  32-bit header fields are pairs <<hi, lo>> of 16-bit words (R2).
   A frame (after unframing) is  header ++ payload:
      octets 0-1   meta(4) options(4) type(4) version(4)          big endian like all header fields
      2-3 sequence, 4-7 address, 8-11 block size,
      then the header checksum (2 octets) iff option WITH-HEADER-CRC, then the payload checksum (2 octets)
      iff option WITH-PAYLOAD-CRC, then the payload.
   Header checksum = CRC-16/ARC over the first 12 octets, continued over the payload-checksum field when that
   is present.  Payload checksum = CRC-16/ARC over the payload octets.
   Transports: 0 serial (SLIP, classic; header CRC always, payload CRC iff payload), 1 TCP (varint length
   prefix, no checksums).                                                                            *)
EXTENDS RegpOps

VARIABLES seq, ev      \* the requesting session's sequence number; ghost event
vars == <<seq>>

Init == seq = 0 /\ ev = Boot
Next == UNCHANGED <<seq, ev>>
=============================================================================
