SPECIFICATION TSpec
CONSTANTS
  HostLE = 1
POSTCONDITION Accepted
CHECK_DEADLOCK FALSE
