---------------------------- MODULE LengthPrefix ----------------------------
(* ufw length-prefix framing (src/length-prefix.c), property C13.

   kinds: 0 varint, 1 one octet, 2 LE16, 3 LE32, 4 BE16, 5 BE32.
   Payload octets are position coded: the source memory block / buffer block holds at index i
   (0-based) the octet Tok(i) = (i+1) % 256, so "which octets were framed" is visible in the output.
   A byte buffer is [size, used, offset] over such a block.

   Lengths that do not fit TLC's 32-bit integers are written as four 16-bit words w3 w2 w1 w0
   (most significant first); ordinary lengths are plain integers.

   Events (harness/lenp.c)  -> observation
     menc k w3 w2 w1 w0          | rc <prefix octets> -7 plen(w3..w0)        flenp_memory_encode (1-octet dummy memory)
     benc k size used off        | rc boff bused -7 <prefix> -7 pstart plen  flenp_buffer_encode
     bencn k size used off n     | same                                      flenp_buffer_encode_n
     cuse k act nc {size used off} | rc -7 <prefix>                          flenp_chunks_use (act = active index)
     msink k n                   | rc -7 <sink octets>                       flenp_memory_to_sink
     bsink k size used off       | rc boff bused -7 <sink>                   flenp_buffer_to_sink
     bsinkn k size used off n    | rc boff bused -7 <sink>                   flenp_buffer_to_sink_n
     csink k act nc {size used off} | rc -7 <sink>                           flenp_chunks_to_sink
     mdec k cap f ns <stream>    | rc srcpos -7 <dest[0..cap)>               flenp_memory_from_source (f: source fragment size)
     bdec k size used off f ns <stream> | rc srcpos bused boff -7 <block[0..size)>   flenp_buffer_from_source
     sdec k f ns <stream>        | nframes { rc len <payload> }              flenp_decode_source_to_sink until the source ends
   rc < 0 is reported as -1 except -12 (out of memory, the only code C13 names).                  *)
EXTENDS Emit, SequencesExt

CONSTANTS MaxSize, MaxChunks

VARIABLES phase, ev
vars == <<phase>>

Tok(i) == (i + 1) % 256
Block(n) == [i \in 1..n |-> Tok(i - 1)]
KindMax16(k) == CASE k = 1 -> <<0, 255>> [] k \in {2, 4} -> <<0, 65535>> [] OTHER -> <<65535, 65535>>   \* (hi, lo)

---------------------------------------------------------------------------
(* prefix of a length given as (hi, lo) 16-bit halves of a 32-bit value *)
Groups(hi, lo) == <<lo % 128, (lo \div 128) % 128, (lo \div 16384) + (hi % 32) * 4, (hi \div 32) % 128, hi \div 4096>>
RECURSIVE StripZ(_)
StripZ(g) == IF Len(g) > 1 /\ g[Len(g)] = 0 THEN StripZ(Take(g, Len(g) - 1)) ELSE g
Varint(hi, lo) == LET m == StripZ(Groups(hi, lo)) IN [i \in 1..Len(m) |-> IF i < Len(m) THEN m[i] + 128 ELSE m[i]]
Prefix(k, hi, lo) == CASE k = 0 -> Varint(hi, lo)
                       [] k = 1 -> <<lo>>
                       [] k = 2 -> <<lo % 256, lo \div 256>>
                       [] k = 4 -> <<lo \div 256, lo % 256>>
                       [] k = 3 -> <<lo % 256, lo \div 256, hi % 256, hi \div 256>>
                       [] OTHER -> <<hi \div 256, hi % 256, lo \div 256, lo % 256>>
Fits(k, hi, lo) == k = 0 \/ (LET m == KindMax16(k) IN hi < m[1] \/ (hi = m[1] /\ lo <= m[2]))
P(k, n) == Prefix(k, n \div 65536, n % 65536)        \* ordinary lengths
FitsN(k, n) == Fits(k, n \div 65536, n % 65536)

(* memory_encode with a 64-bit length w3..w0: refused beyond SSIZE_MAX or the kind's maximum *)
MencObs(k, w3, w2, w1, w0) ==
    IF w3 >= 32768 \/ ((w3 > 0 \/ w2 > 0) /\ k # 0) \/ (w3 = 0 /\ w2 = 0 /\ ~Fits(k, w1, w0))
    THEN <<-1>>
    ELSE IF w3 = 0 /\ w2 = 0 THEN <<0>> \o Prefix(k, w1, w0) \o <<-7, w3, w2, w1, w0>>
    ELSE <<0, -8, -7, w3, w2, w1, w0>>              \* varint beyond 2^32: prefix not modelled, only acceptance

---------------------------------------------------------------------------
(* buffers: unread content is block[off+1 .. used] *)
Unread(b) == SubSeq(Block(b[1]), b[3] + 1, b[2])
RestOf(b) == b[2] - b[3]
BencObs(k, b) == IF FitsN(k, RestOf(b)) THEN <<0, b[3], b[2], -7>> \o P(k, RestOf(b)) \o <<-7, b[3], RestOf(b)>>
                 ELSE <<-1, b[3], b[2]>>                      \* refused: the buffer is as it was (R5)
\* first n unread octets, the buffer advances by n
BencnObs(k, b, n) == IF n <= RestOf(b) /\ FitsN(k, n) THEN <<0, b[3] + n, b[2], -7>> \o P(k, n) \o <<-7, b[3], n>>
                     ELSE <<-1, b[3], b[2]>>
RECURSIVE ChunkData(_)
ChunkData(cs) == IF cs = <<>> THEN <<>> ELSE Unread(Head(cs)) \o ChunkData(Tail(cs))
\* a chunk list designates the unread content of its chunks from the active one on (act chunks in front are done with)
CuseObs(k, cs) == LET n == Len(ChunkData(cs)) IN IF FitsN(k, n) THEN <<0, -7>> \o P(k, n) ELSE <<-1>>

(* into a sink: prefix then exactly the designated octets; reports the total; length >= 1 *)
MsinkObs(k, n) == IF FitsN(k, n) THEN <<Len(P(k, n)) + n, -7>> \o P(k, n) \o Block(n) ELSE <<-1, -7>>
BsinkObs(k, b) == LET n == RestOf(b)
                  IN IF FitsN(k, n) THEN <<Len(P(k, n)) + n, b[3], b[2], -7>> \o P(k, n) \o Unread(b) ELSE <<-1, b[3], b[2], -7>>
BsinknObs(k, b, n) == IF n <= RestOf(b) /\ FitsN(k, n)
                      THEN <<Len(P(k, n)) + n, b[3] + n, b[2], -7>> \o P(k, n) \o Take(Unread(b), n)
                      ELSE <<-1, b[3], b[2], -7>>
CsinkObs(k, cs) == LET d == ChunkData(cs)
                   IN IF FitsN(k, Len(d)) THEN <<Len(P(k, Len(d))) + Len(d), -7>> \o P(k, Len(d)) \o d ELSE <<-1, -7>>

---------------------------------------------------------------------------
(* decoding a stream: [ok, len, rest, used] *)
PrefixLen(k) == CASE k = 1 -> 1 [] k \in {2, 4} -> 2 [] OTHER -> 4
RECURSIVE VarDec(_, _, _, _)
\* value as plain integer, i = octets consumed.  A varint may have up to ten octets; the groups behind the fourth stand for 2^28
\* and more: any bit set there makes the announced length Huge (more than any destination of the model or the harness has room for),
\* all zero (a non-minimal encoding) leaves the value of the first four groups.  acc < 0 marks "huge so far".
Huge == 1073741824
VarDec(s, i, acc, mul) == IF i >= Len(s) THEN [ok |-> FALSE, len |-> 0, used |-> Len(s)]
                          ELSE LET o == s[i + 1]
                                   g == o % 128
                                   acc2 == IF i < 4 THEN (IF acc < 0 THEN acc ELSE acc + g * mul) ELSE (IF g # 0 THEN -1 ELSE acc)
                               IN IF o < 128 THEN [ok |-> TRUE, len |-> IF acc2 < 0 THEN Huge ELSE acc2, used |-> i + 1]
                                  ELSE IF i + 1 >= 10 THEN [ok |-> FALSE, len |-> 0, used |-> i + 1]   \* no terminator within ten octets
                                  ELSE VarDec(s, i + 1, acc2, IF i < 3 THEN mul * 128 ELSE mul)
ReadPrefix(k, s) ==
    IF k = 0 THEN VarDec(s, 0, 0, 1)
    ELSE IF Len(s) < PrefixLen(k) THEN [ok |-> FALSE, len |-> 0, used |-> Len(s)]
    ELSE [ok |-> TRUE, used |-> PrefixLen(k),
          len |-> CASE k = 1 -> s[1] [] k = 2 -> s[1] + 256 * s[2] [] k = 4 -> s[2] + 256 * s[1]
                    [] k = 3 -> s[1] + 256 * s[2] + 65536 * s[3] + 16777216 * (s[4] % 64)
                    [] OTHER -> s[4] + 256 * s[3] + 65536 * s[2] + 16777216 * (s[1] % 64)]
(* decode one frame into a destination with room for cap octets:
   <<rc, srcpos, payload>>;  rc = len | -12 (no room) | -1 (stream ended) *)
DecodeOne(k, s, cap) ==
    LET p == ReadPrefix(k, s)
    IN IF ~p.ok THEN <<-1, p.used, <<>>>>
       ELSE IF p.len > cap THEN <<-12, p.used, <<>>>>
       ELSE IF p.len = 0 THEN <<-1, p.used, <<>>>>                                  \* zero-length frames are outside C13
       ELSE IF Len(s) - p.used < p.len THEN <<-1, Len(s), SubSeq(s, p.used + 1, Len(s))>>     \* truncated payload: an error
       ELSE <<p.len, p.used + p.len, SubSeq(s, p.used + 1, p.used + p.len)>>
MdecObs(k, cap, s) == LET d == DecodeOne(k, s, cap)
                      IN IF d[1] >= 0 THEN <<d[1], d[2], -7>> \o d[3] \o Fill(cap - Len(d[3]), 170)
                         ELSE <<d[1], -7>>     \* on failure only the code is compared (and ASan watches the block)
(* into a buffer: appended behind the filled region *)
BdecObs(k, b, s) == LET d == DecodeOne(k, s, b[1] - b[2])
                    IN IF d[1] >= 0
                       THEN <<d[1], d[2], b[2] + d[1], b[3], -7>> \o Fill(b[2], 171) \o d[3] \o Fill(b[1] - b[2] - d[1], 170)
                       ELSE <<d[1], b[2], b[3], 0, -7>>        \* refused: bookkeeping and filled region as they were (R5)
RECURSIVE SdecFrames(_, _)
SdecFrames(k, s) == IF s = <<>> THEN <<>>
                    ELSE LET d == DecodeOne(k, s, 100000)
                         IN IF d[1] < 0 THEN <<<<-1, 0>>>>
                            ELSE <<<<d[1], d[1]>> \o d[3]>> \o SdecFrames(k, Drop(s, d[2]))
RECURSIVE Flat(_)
Flat(fs) == IF fs = <<>> THEN <<>> ELSE Head(fs) \o Flat(Tail(fs))
SdecObs(k, s) == LET fs == SdecFrames(k, s) IN <<Len(fs)>> \o Flat(fs)

---------------------------------------------------------------------------
(* C13 on the model, per case *)
Kinds == 0..5
Bufs == {<<sz, us, off>> : sz \in 1..MaxSize, us \in 0..MaxSize, off \in 0..MaxSize} \cap
        {b \in (1..MaxSize) \X (0..MaxSize) \X (0..MaxSize) : b[2] <= b[1] /\ b[3] <= b[2]}
Frame(k, pl) == P(k, Len(pl)) \o pl
EncDecOK(k, n) ==    \* what msink emits decodes to exactly the payload; the prefix is the kind's encoding of n
    FitsN(k, n) /\ n >= 1 =>
        LET w == Drop(MsinkObs(k, n), 2)
            d == DecodeOne(k, w, n)
        IN /\ d = <<n, Len(w), Block(n)>>
           /\ DecodeOne(k, w, n - 1)[1] = -12
           /\ ReadPrefix(k, w).len = n /\ ReadPrefix(k, w).used = Len(P(k, n))
TwoFramesOK(k, a, b) == SdecObs(k, Frame(k, Block(a)) \o Frame(k, SubSeq(Block(a + b), a + 1, a + b)))
                          = <<2, a, a>> \o Block(a) \o <<b, b>> \o SubSeq(Block(a + b), a + 1, a + b)

---------------------------------------------------------------------------
Init == /\ phase \in {<<"b", op, k>> : op \in {"menc", "benc", "bencn", "cuse", "msink", "bsink", "bsinkn", "csink", "mdec", "bdec", "sdec"}, k \in Kinds}
        /\ ev = Boot
Lens == (1..20) \cup {126, 127, 128, 129, 254, 255, 256, 257, 1099, 1100}
Next == /\ phase[1] = "b" /\ ev' = Boot
        /\ LET op == phase[2]
               k == phase[3]
           IN \/ op = "menc" /\ \E w \in {<<0, 0, 0, 1>>, <<0, 0, 0, 127>>, <<0, 0, 0, 128>>, <<0, 0, 0, 255>>, <<0, 0, 0, 256>>,
                                          <<0, 0, 0, 16383>>, <<0, 0, 0, 16384>>, <<0, 0, 0, 65535>>, <<0, 0, 1, 0>>, <<0, 0, 1, 1>>,
                                          <<0, 0, 31, 65535>>, <<0, 0, 32, 0>>, <<0, 0, 4095, 65535>>, <<0, 0, 4096, 0>>,
                                          <<0, 0, 65535, 65534>>, <<0, 0, 65535, 65535>>, <<0, 1, 0, 0>>, <<0, 1, 0, 1>>,
                                          <<32767, 65535, 65535, 65535>>, <<32768, 0, 0, 0>>, <<65535, 65535, 65535, 65535>>} :
                                   phase' = <<"c", op, k, w>>
              \/ op \in {"benc", "bsink"} /\ \E b \in Bufs : RestOf(b) >= 1 /\ phase' = <<"c", op, k, b>>
              \/ op \in {"bencn", "bsinkn"} /\ \E b \in Bufs, n \in 1..MaxSize + 1 : phase' = <<"c", op, k, b, n>>
              \/ op \in {"cuse", "csink"} /\ \E cs \in SeqsUpTo({b \in Bufs : b[1] <= 3}, MaxChunks) : \E act \in 0..Len(cs) - 1 :
                    cs # <<>> /\ ChunkData(Drop(cs, act)) # <<>> /\ phase' = <<"c", op, k, cs, act>>
              \* three chunks of at most two octets: empty chunks in front of, between and behind non-empty ones
              \/ op \in {"cuse", "csink"} /\ \E cs \in {t \in SeqsUpTo({b \in Bufs : b[1] <= 2}, 3) : Len(t) = 3} : \E act \in 0..2 :
                    ChunkData(Drop(cs, act)) # <<>> /\ phase' = <<"c", op, k, cs, act>>
              \/ op = "msink" /\ \E n \in Lens : phase' = <<"c", op, k, n>>
              \/ op = "mdec" /\ \E n \in 1..MaxSize, d \in {-1, 0, 1}, f \in 1..3, cut \in {0, 1} :
                                   n + d >= 0 /\ phase' = <<"c", op, k, n + d, f, IF cut = 1 THEN Take(Frame(k, Block(n)), Len(Frame(k, Block(n))) - 1) ELSE Frame(k, Block(n))>>
              \/ op = "bdec" /\ \E b \in Bufs, n \in 1..MaxSize, f \in 1..2 : phase' = <<"c", op, k, b, f, Frame(k, Block(n))>>
              \/ op = "sdec" /\ \E a \in 1..3, b \in 1..3, f \in 1..9 : phase' = <<"c", op, k, f, a, b>>
Spec == Init /\ [][Next]_<<vars, ev>>

Q == phase
RECURSIVE FlatBufs(_)
FlatBufs(cs) == IF cs = <<>> THEN <<>> ELSE Head(cs) \o FlatBufs(Tail(cs))
CaseLine ==
    LET op == Q[2]
        k == Q[3]
    IN CASE op = "menc" -> "menc " \o Join(<<k>> \o Q[4]) \o " | " \o Join(MencObs(k, Q[4][1], Q[4][2], Q[4][3], Q[4][4]))
         [] op = "benc" -> "benc " \o Join(<<k>> \o Q[4]) \o " | " \o Join(BencObs(k, Q[4]))
         [] op = "bencn" -> "bencn " \o Join(<<k>> \o Q[4] \o <<Q[5]>>) \o " | " \o Join(BencnObs(k, Q[4], Q[5]))
         [] op = "cuse" -> "cuse " \o Join(<<k, Q[5], Len(Q[4])>> \o FlatBufs(Q[4])) \o " | " \o Join(CuseObs(k, Drop(Q[4], Q[5])))
         [] op = "msink" -> "msink " \o Join(<<k, Q[4]>>) \o " | " \o Join(MsinkObs(k, Q[4]))
         [] op = "bsink" -> "bsink " \o Join(<<k>> \o Q[4]) \o " | " \o Join(BsinkObs(k, Q[4]))
         [] op = "bsinkn" -> "bsinkn " \o Join(<<k>> \o Q[4] \o <<Q[5]>>) \o " | " \o Join(BsinknObs(k, Q[4], Q[5]))
         [] op = "csink" -> "csink " \o Join(<<k, Q[5], Len(Q[4])>> \o FlatBufs(Q[4])) \o " | " \o Join(CsinkObs(k, Drop(Q[4], Q[5])))
         [] op = "mdec" -> "mdec " \o Join(<<k, Q[4], Q[5], Len(Q[6])>> \o Q[6]) \o " | " \o Join(MdecObs(k, Q[4], Q[6]))
         [] op = "bdec" -> "bdec " \o Join(<<k>> \o Q[4] \o <<Q[5], Len(Q[6])>> \o Q[6]) \o " | " \o Join(BdecObs(k, Q[4], Q[6]))
         [] OTHER -> LET s == Frame(k, Block(Q[5])) \o Frame(k, SubSeq(Block(Q[5] + Q[6]), Q[5] + 1, Q[5] + Q[6]))
                     IN "sdec " \o Join(<<k, Q[4], Len(s)>> \o s) \o " | " \o Join(SdecObs(k, s))
CaseInv == phase[1] = "c" =>
    CASE Q[2] = "msink" -> EncDecOK(Q[3], Q[4])
      [] Q[2] = "sdec" -> TwoFramesOK(Q[3], Q[5], Q[6])
      [] OTHER -> TRUE
EmitCases == phase[1] = "c" => EmitCase(CaseLine)
=============================================================================
