SPECIFICATION TSpec
CONSTANTS
  MaxCap = 3
  Alphabet = {1, 2}
  Types = {8, 32}
INVARIANTS QueueRefinement Bounded ImplShape SizeEmptyFullAgree IterOldNewIsQueue IterNewOldIsReverse
PROPERTIES GetOldest PutRule
POSTCONDITION Accepted
CHECK_DEADLOCK FALSE
