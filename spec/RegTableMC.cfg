SPECIFICATION MCSpec
CONSTANTS
  MaxCorrupt = 1
  BlockLens = {1, 2}
  TableIds = {1, 2, 3, 4, 6}
  Reads = FALSE
  MaxLevel = 3
VIEW View
INVARIANT ConstraintInv
PROPERTIES RefusedUnchanged SanitiseRestores SetGetRoundTrip BitOpsExact InitAcceptsIffWellFormed
CONSTRAINT Bounded
CONSTRAINT EmitInit
ACTION_CONSTRAINT EmitAll
CHECK_DEADLOCK FALSE
