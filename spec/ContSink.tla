------------------------------ MODULE ContSink ------------------------------
(* The continuable sink (src/endpoints/continuable-sink.c, extra X05): a sink in front of a block allocator and an
   optional fallback buffer that keeps accepting a frame's octets whatever happens and records the first problem.

   conf = <<block, fb, reserve>>   block 0: no allocator; fb 99: no fallback buffer; reserve: octets the post-allocation
                                   callback sets aside at the start of the block (regp puts its frame struct there)
   The octet at stream position p is (p % 251) + 1.
   Event  init block fb reserve | 0 ;   write n allocok | n errid datacount allocated used fbused <block data> -7 <fallback data> *)
EXTENDS Emit, SequencesExt, TLC

CONSTANTS Blocks, FBs, Reserves, MaxW, MaxPos
NOFB == 99
ENOMEM == 12
EBUSY == 16

VARIABLES conf, alloc, buf, fb, errid, dcount, pos, ev
vars == <<conf, alloc, buf, fb, errid, dcount, pos>>

Stream(p, n) == [k \in 1..n |-> ((p + k - 1) % 251) + 1]
Fit(t, cap, data) == t \o Take(data, MinOf(Len(data), cap - Len(t)))

Init == conf = <<>> /\ alloc = 0 /\ buf = <<>> /\ fb = <<>> /\ errid = 0 /\ dcount = 0 /\ pos = 0 /\ ev = Boot

Configure(b, f, r) ==
    /\ conf = <<>> /\ r <= b
    /\ conf' = <<b, f, r>> /\ UNCHANGED <<alloc, buf, fb, errid, dcount, pos>>
    /\ ev' = Ev("init", <<b, f, r>>, <<0>>)

Block == conf[1]
FB == conf[2]
Reserve == conf[3]
Obs(n, al, bf, fbk, e, d) == <<n, e, d, al, IF al = 1 THEN Reserve + Len(bf) ELSE 0, IF FB = NOFB THEN 0 ELSE Len(fbk)>> \o bf \o <<-7>> \o fbk

Write(n, ok) ==
    /\ conf # <<>> /\ pos + n <= MaxPos
    /\ (~ok => alloc = 0 /\ Block > 0 /\ errid = 0)                          \* the allocator is asked exactly once
    /\ LET data == Stream(pos, n)
           tomain == alloc = 1
           store(al) == IF al = 1 THEN <<Fit(buf, Block - Reserve, data), fb>>
                        ELSE IF FB # NOFB THEN <<buf, Fit(fb, FB, data)>> ELSE <<buf, fb>>
           R == IF errid # 0 THEN [al |-> alloc, st |-> store(alloc), e |-> errid, d |-> dcount + n]                \* already in trouble: keep what fits, count
                ELSE IF Block = 0 /\ FB = NOFB THEN [al |-> 0, st |-> <<buf, fb>>, e |-> ENOMEM, d |-> dcount + n]    \* nowhere to put anything
                ELSE IF alloc = 0 /\ Block > 0 /\ ~ok THEN [al |-> 0, st |-> store(0), e |-> EBUSY, d |-> n]          \* allocation failed: start of the frame goes to the fallback
                ELSE LET al == IF Block > 0 THEN 1 ELSE 0
                         m == IF al = 1 THEN Reserve + Len(buf) ELSE Len(fb)
                         st == store(al)
                         lost == Len(st[1]) + Len(st[2]) < Len(buf) + Len(fb) + n
                     IN [al |-> al, st |-> st, e |-> IF lost THEN ENOMEM ELSE 0, d |-> IF lost THEN m + n ELSE dcount]
       IN /\ alloc' = R.al /\ buf' = R.st[1] /\ fb' = R.st[2] /\ errid' = R.e /\ dcount' = R.d /\ pos' = pos + n
          /\ ev' = Ev("write", <<n, IF ok THEN 1 ELSE 0>>, Obs(n, R.al, R.st[1], R.st[2], R.e, R.d))
    /\ UNCHANGED conf

Next == \/ \E b \in Blocks, f \in FBs, r \in Reserves : Configure(b, f, r)
        \/ \E n \in 1..MaxW, ok \in BOOLEAN : Write(n, ok)
Spec == Init /\ [][Next]_<<vars, ev>>

(* ------------------------------------------------------------------ what a user relies on *)
TypeInv == conf # <<>> =>
    /\ Len(buf) <= Block - Reserve /\ (FB # NOFB => Len(fb) <= FB) /\ (FB = NOFB => fb = <<>>)
    /\ (buf = <<>> \/ fb = <<>>)
    /\ (alloc = 1 => Block > 0)
KeepsTheStartOfTheFrame == buf = Stream(0, Len(buf)) /\ fb = Stream(0, Len(fb))       \* what is kept is always the beginning of the frame, in order
NothingLostWithoutNotice == (conf # <<>> /\ errid = 0) => Len(buf) + Len(fb) = pos
ErrorMeansLoss == (conf # <<>> /\ errid = ENOMEM) => Len(buf) + Len(fb) < pos
BusyOnlyFromAllocator == errid = EBUSY => alloc = 0 /\ Block > 0 /\ buf = <<>>
CountsTheWholeFrame == (conf # <<>> /\ errid # 0) => dcount = pos + (IF alloc = 1 THEN Reserve ELSE 0)  \* the count covers every octet that arrived
ErrorSticks == [][errid # 0 => errid' = errid]_vars
AcceptsEverything == [][conf # <<>> => ev'.o[1] = ev'.a[1]]_vars                       \* never refuses an octet

Key == ToString(<<conf, alloc, buf, fb, errid, dcount, pos>>)
View == vars
EmitAll == EmitEdge(Key, ToString(<<conf', alloc', buf', fb', errid', dcount', pos'>>), ev')
EmitInit == ev.op = "boot" => EmitInitial(Key)
=============================================================================
