------------------------------ MODULE Endpoints ------------------------------
(* ufw sources and sinks (src/endpoints/core.c), property C17.

   The *environment* is explicit: a stream of L position-coded octets (octet i has value i) behind
   the source, a recording sink, and for each side a *driver script*: what the driver does on its
   1st, 2nd, ... call.  After the script is used up the driver behaves well (delivers / accepts all
   that is asked).  When the stream is exhausted the source driver reports -61 (ENODATA) whatever
   the script says.

   behaviours (chunk drivers):  1 one octet | 2 two | 3 half (rounded up) | 4 all that is asked
                                0 zero-length return | -4 EINTR | -11 EAGAIN | -5 hard error
   octet drivers: any positive behaviour means "the octet", the others as above.

   The library's request policy is part of the model: a chunk driver is always asked for everything
   that is still missing.  Results are functions of (api, N, scripts); each env is a record
      [pos, ss, sink, ks, sc, kc]   stream position, rest of source script, what reached the sink,
                                    rest of sink script, driver call counters                      *)
EXTENDS Emit, SequencesExt

CONSTANTS MaxN, MaxScript, MaxPScript, MaxKScript
Beh == {1, 2, 3, 4, 0, -4, -11, -5}     \* behaviours used in scripts of the N-octet read/write calls
PBeh == {1, 2, 4, -4, -5, -12}          \* ... of the plumbing calls (no zero-length returns there, see DESIGN.md); -12: a sink that is full

EINTR == -4
EAGAIN == -11
EIO == -5
ENODATA == -61
EINVAL == -22
Retry(rc) == rc = EINTR \/ rc = EAGAIN \/ rc = 0

VARIABLES phase, ev
vars == <<phase>>

Amount(b, want) == CASE b = 1 -> 1 [] b = 2 -> MinOf(2, want) [] b = 3 -> (want + 1) \div 2 [] OTHER -> want
NextB(script) == IF script = <<>> THEN 4 ELSE Head(script)
Rest(script) == IF script = <<>> THEN <<>> ELSE Tail(script)
Ret(rc, e) == [rc |-> rc, e |-> e]
Env0(L, ss, ks) == [pos |-> 0, L |-> L, ss |-> ss, sink |-> <<>>, ks |-> ks, sc |-> 0, kc |-> 0]

---------------------------------------------------------------------------
(* one driver call *)
(* at the end of its data a driver may still answer "nothing right now" (0, EINTR, EAGAIN - if its script says so) before it reports the end *)
AtEndStall(e) == e.pos >= e.L /\ e.ss # <<>> /\ Head(e.ss) \in {0, EINTR, EAGAIN}
SrcChunkCall(e, want) ==      \* chunk source driver asked for `want` octets
    LET e1 == [e EXCEPT !.sc = e.sc + 1]
    IN IF AtEndStall(e) THEN Ret(Head(e.ss), [e1 EXCEPT !.ss = Tail(e.ss)])
       ELSE IF e.pos >= e.L THEN Ret(ENODATA, e1)
       ELSE LET b == NextB(e.ss)
                e2 == [e1 EXCEPT !.ss = Rest(e.ss)]
            IN IF b <= 0 THEN Ret(b, e2)
               ELSE IF b = 9 THEN Ret(EINTR, e2)       \* behaviour 9: three hundred interruptions in a row (harness) - to a caller that retries, the same as one
               ELSE LET d == MinOf(Amount(b, want), e.L - e.pos) IN Ret(d, [e2 EXCEPT !.pos = e.pos + d])
SrcOctetCall(e) ==            \* octet source driver
    LET e1 == [e EXCEPT !.sc = e.sc + 1]
    IN IF AtEndStall(e) THEN Ret(Head(e.ss), [e1 EXCEPT !.ss = Tail(e.ss)])
       ELSE IF e.pos >= e.L THEN Ret(ENODATA, e1)
       ELSE LET b == NextB(e.ss)
                e2 == [e1 EXCEPT !.ss = Rest(e.ss)]
            IN IF b <= 0 THEN Ret(b, e2) ELSE IF b = 9 THEN Ret(EINTR, e2) ELSE Ret(1, [e2 EXCEPT !.pos = e.pos + 1])
Tok(i) == i % 256                                    \* value of stream octet number i
Tokens(from, k) == [i \in 1..k |-> Tok(from + i)]  \* stream octets from+1 .. from+k
SinkChunkCall(e, data) ==     \* chunk sink driver offered `data`
    LET b == NextB(e.ks)
        e1 == [e EXCEPT !.kc = e.kc + 1, !.ks = Rest(e.ks)]
    IN IF b <= 0 THEN Ret(b, e1)
       ELSE IF b = 9 THEN Ret(EINTR, e1)
       ELSE LET d == Amount(b, Len(data)) IN Ret(d, [e1 EXCEPT !.sink = e.sink \o Take(data, d)])
SinkOctetCall(e, o) ==
    LET b == NextB(e.ks)
        e1 == [e EXCEPT !.kc = e.kc + 1, !.ks = Rest(e.ks)]
    IN IF b <= 0 THEN Ret(b, e1) ELSE IF b = 9 THEN Ret(EINTR, e1) ELSE Ret(1, [e1 EXCEPT !.sink = Append(e.sink, o)])

---------------------------------------------------------------------------
(* the library's adaptors and loops.  `got` = octets placed into the destination so far (in order) *)
RECURSIVE SrcAdapt(_, _, _)
SrcAdapt(e, want, got) ==     \* chunk read on an octet driver: exactly `want` octets, retrying
    IF Len(got) = want THEN [rc |-> want, e |-> e, got |-> got]
    ELSE LET r == SrcOctetCall(e)
         IN IF Retry(r.rc) THEN SrcAdapt(r.e, want, got)
            ELSE IF r.rc = ENODATA /\ got # <<>> THEN [rc |-> Len(got), e |-> r.e, got |-> got]   \* end after some octets
            ELSE IF r.rc < 0 THEN [rc |-> r.rc, e |-> r.e, got |-> got]
            ELSE SrcAdapt(r.e, want, Append(got, Tok(r.e.pos)))
SrcOnce(kind, e, want) ==     \* source_get_chunk_atmost: one request
    IF kind = 1 THEN SrcAdapt(e, want, <<>>)
    ELSE LET r == SrcChunkCall(e, want)
         IN [rc |-> r.rc, e |-> r.e, got |-> IF r.rc > 0 THEN Tokens(e.pos, r.rc) ELSE <<>>]
RECURSIVE GetChunk(_, _, _, _)
GetChunk(kind, e, n, got) ==  \* source_get_chunk: exactly n octets
    IF Len(got) = n THEN [rc |-> n, e |-> e, got |-> got]
    ELSE LET r == SrcOnce(kind, e, n - Len(got))
         IN IF Retry(r.rc) THEN GetChunk(kind, r.e, n, got \o r.got)
            ELSE IF r.rc < 0 THEN [rc |-> r.rc, e |-> r.e, got |-> got \o r.got]
            ELSE GetChunk(kind, r.e, n, got \o r.got)

RECURSIVE SinkAdapt(_, _, _)
SinkAdapt(e, data, k) ==      \* chunk write on an octet driver; k octets already written
    IF k = Len(data) THEN Ret(Len(data), e)
    ELSE LET r == SinkOctetCall(e, data[k + 1])
         IN IF Retry(r.rc) THEN SinkAdapt(r.e, data, k)
            ELSE IF r.rc < 0 THEN Ret(r.rc, r.e) ELSE SinkAdapt(r.e, data, k + 1)
SinkOnce(kind, e, data) == IF kind = 1 THEN SinkAdapt(e, data, 0) ELSE SinkChunkCall(e, data)
RECURSIVE PutChunk(_, _, _)
PutChunk(kind, e, data) ==    \* sink_put_chunk: all of data
    IF data = <<>> THEN Ret(0, e)
    ELSE LET r == SinkOnce(kind, e, data)
         IN IF Retry(r.rc) THEN PutChunk(kind, r.e, data)
            ELSE IF r.rc < 0 THEN r
            ELSE IF r.rc = Len(data) THEN Ret(r.rc, r.e)
            ELSE LET t == PutChunk(kind, r.e, Drop(data, r.rc)) IN IF t.rc < 0 THEN t ELSE Ret(t.rc + r.rc, t.e)

GetOctet(kind, e) == IF kind = 1 THEN SrcOctetCall(e)
                     ELSE LET r == SrcChunkCall(e, 1) IN r
PutOctet(kind, e, o) == IF kind = 1 THEN SinkOctetCall(e, o) ELSE SinkChunkCall(e, <<o>>)

(* per-octet plumbing *)
Cbc(sk, kk, e) == LET g == GetOctet(sk, e)
                  IN IF g.rc < 0 THEN g ELSE PutOctet(kk, g.e, Tok(g.e.pos))
RECURSIVE NCbc(_, _, _, _, _)
NCbc(sk, kk, e, n, i) == IF i = n THEN Ret(n, e)
                         ELSE LET r == Cbc(sk, kk, e) IN IF r.rc < 0 THEN r ELSE NCbc(sk, kk, r.e, n, i + 1)
RECURSIVE DrainCbc(_, _, _)
DrainCbc(sk, kk, e) == LET r == Cbc(sk, kk, e) IN IF r.rc < 0 THEN r ELSE DrainCbc(sk, kk, r.e)

(* plumbing through an auxiliary buffer whose designated region holds R octets *)
SomeAux(sk, kk, e, R) ==
    LET g == SrcOnce(sk, e, R)
    IN IF g.rc < 0 THEN Ret(g.rc, g.e)
       ELSE IF g.rc = 0 THEN Ret(0, g.e)            \* (or EINVAL: see AuxAlts)
       ELSE PutChunk(kk, g.e, g.got)
RECURSIVE NAux(_, _, _, _, _)
NAux(sk, kk, e, R, rest) ==
    IF rest = 0 THEN Ret(0, e)
    ELSE LET r == SomeAux(sk, kk, e, MinOf(R, rest))
         IN IF r.rc < 0 THEN r ELSE NAux(sk, kk, r.e, R, rest - r.rc)
RECURSIVE DrainAux(_, _, _, _)
DrainAux(sk, kk, e, R) == LET r == SomeAux(sk, kk, e, R) IN IF r.rc < 0 THEN r ELSE DrainAux(sk, kk, r.e, R)

(* plumbing with a chunk-style source that offers a scratch buffer of R octets through the getbuffer extension (the sink has
   none): each step reads at most R octets with ONE driver call into the scratch buffer and puts all of them to the sink.
   An interruption of the source is returned to the caller; a sink reporting "no memory" makes the counted and the
   draining loop try again. *)
ENOMEM == -12
EPIPE == -32
ViaSource(kk, e, R, n) ==
    LET m == IF n = 0 \/ R < n THEN R ELSE n
        g == SrcChunkCall(e, m)
    IN IF g.rc < 0 THEN Ret(g.rc, g.e) ELSE PutChunk(kk, g.e, Tokens(e.pos, g.rc))
(* the same with an octet-style source: exactly m octets are collected (interruptions retried) before they go to the sink.  Only used
   with more data in the source than is asked for (what an octet-style source that ends inside such a step loses is not specified). *)
ViaSourceO(kk, e, R, n) ==
    LET m == IF n = 0 \/ R < n THEN R ELSE n
        g == GetChunk(1, e, m, <<>>)
    IN IF g.rc < 0 THEN Ret(g.rc, g.e) ELSE PutChunk(kk, g.e, g.got)
RECURSIVE NExtO(_, _, _, _, _)
NExtO(kk, e, R, n, rest) ==
    IF rest = 0 THEN Ret(n, e)
    ELSE LET r == ViaSourceO(kk, e, R, rest)
         IN IF r.rc = ENOMEM THEN NExtO(kk, r.e, R, n, rest) ELSE IF r.rc < 0 THEN r ELSE NExtO(kk, r.e, R, n, rest - r.rc)
RECURSIVE NExt(_, _, _, _, _)
NExt(kk, e, R, n, rest) ==
    IF rest = 0 THEN Ret(n, e)
    ELSE LET r == ViaSource(kk, e, R, rest)
         IN IF r.rc = ENOMEM THEN NExt(kk, r.e, R, n, rest) ELSE IF r.rc < 0 THEN r ELSE NExt(kk, r.e, R, n, rest - r.rc)
RECURSIVE DrainExt(_, _, _)
DrainExt(kk, e, R) == LET r == ViaSource(kk, e, R, 0) IN IF r.rc < 0 /\ r.rc # ENOMEM THEN r ELSE DrainExt(kk, r.e, R)

---------------------------------------------------------------------------
(* observations
     get*  : rc srcpos  dest[1..N] (170 where nothing was placed)
     put*  : rc <what reached the sink>
     plumb : rc srcpos canary <what reached the sink>      canary = 1 iff octets of the auxiliary block
                                                           outside the designated region were touched  *)
PadTo(s, n) == s \o Fill(n - Len(s), 170)
GetObs(r, n) == <<r.rc, r.e.pos>> \o PadTo(r.got, n)
PutObs(r) == <<r.rc>> \o r.e.sink
PlumbObs(r) == <<r.rc, r.e.pos, 0>> \o r.e.sink

Result(api, sk, kk, n, L, R, ss, ks) ==
    LET e == Env0(L, ss, ks)
    \* n = -1 stands for SSIZE_MAX + 1 (refused as invalid, like 0, without touching driver or memory)
    IN CASE api = "get" -> IF n <= 0 THEN <<EINVAL, 0>> ELSE GetObs(GetChunk(sk, e, n, <<>>), n)
         [] api = "getam" -> GetObs(SrcOnce(sk, e, n), n)
         [] api = "geto" -> LET g == GetOctet(sk, e) IN <<g.rc, g.e.pos>> \o (IF g.rc > 0 THEN <<Tok(g.e.pos)>> ELSE <<170>>)
         [] api = "put" -> IF n <= 0 THEN <<EINVAL>> ELSE PutObs(PutChunk(kk, e, Tokens(0, n)))
         [] api = "putam" -> PutObs(SinkOnce(kk, e, Tokens(0, n)))
         [] api = "puto" -> PutObs(PutOctet(kk, e, 1))
         \* sts_some / sts_atmost / sts_n / sts_drain on endpoints without buffer extension fall back to the
         \* per-octet path: "ssts", "asts", "nsts", "dsts"
         [] api \in {"cbc", "ssts", "asts"} -> PlumbObs(Cbc(sk, kk, e))
         [] api \in {"ncbc", "nsts"} -> PlumbObs(NCbc(sk, kk, e, n, 0))
         [] api = "dcbc" -> PlumbObs(DrainCbc(sk, kk, e))
         \* sts_drain takes "no memory" from the sink as the cue to go on through a buffer the source offers; with plain endpoints
         \* there is none and the call ends with "broken pipe" (an error either way; what reached the sink is a prefix)
         [] api = "dsts" -> LET r == DrainCbc(sk, kk, e) IN PlumbObs(IF r.rc = ENOMEM THEN Ret(EPIPE, r.e) ELSE r)
         \* (R > 10 encodes a designated region of R % 10 octets that starts 2 - R > 20: 8 - octets into the auxiliary block)
         \* the same four calls when the (chunk-style) source offers a scratch buffer of R octets: "sstx", "astx", "nstx", "dstx"
         [] api = "sstx" -> PlumbObs(ViaSource(kk, e, R, 0))
         [] api = "astx" -> PlumbObs(IF sk = 1 THEN ViaSourceO(kk, e, R, n) ELSE ViaSource(kk, e, R, n))
         [] api = "nstx" -> PlumbObs(IF sk = 1 THEN NExtO(kk, e, R, n, n) ELSE NExt(kk, e, R, n, n))
         [] api = "dstx" -> PlumbObs(DrainExt(kk, e, R))
         [] api = "someaux" -> PlumbObs(SomeAux(sk, kk, e, R % 10))
         [] api = "amaux" -> PlumbObs(SomeAux(sk, kk, e, MinOf(R % 10, n)))
         \* the counted and the draining call rewind the auxiliary buffer first: whatever its read offset, a step carries at most the
         \* R % 10 octets of its region (then at the front of the block), and the block is otherwise left alone
         [] api = "naux" -> LET r == NAux(sk, kk, e, R % 10, n) IN PlumbObs(IF r.rc < 0 THEN r ELSE Ret(n, r.e))
         [] OTHER -> PlumbObs(DrainAux(sk, kk, e, R % 10))     \* "daux"

---------------------------------------------------------------------------
(* N beyond INT_MAX (2^31 .. 2^32 + k, as four 16-bit words): chunk-style drivers that account for the octets without touching
   memory.  The counted loop completes with the first driver call that takes everything (a script's end means "everything");
   calls that take 1 or 2 octets, zero-length returns and interruptions only delay it; a hard error ends it.
   putbig n3 n2 n1 n0 nks ks.. | 1 <rc as four words> <octets the driver accounted for, four words>   or   0 errno <accounted> *)
BBeh == {1, 2, 4, 0, -4, -11, -5}
RECURSIVE BigScan(_, _)
BigScan(ks, acc) == IF ks = <<>> THEN <<0, acc>>
                    ELSE LET b == Head(ks)
                         IN IF b = 4 THEN <<0, acc>> ELSE IF b \in {1, 2} THEN BigScan(Tail(ks), acc + b)
                            ELSE IF b = EIO THEN <<EIO, acc>> ELSE BigScan(Tail(ks), acc)
BigResult(n4, ks) == LET r == BigScan(ks, 0) IN IF r[1] = 0 THEN <<1>> \o n4 \o n4 ELSE <<0, r[1], 0, 0, 0, r[2]>>
BigNs == {<<0, 0, 32767, 65535>>, <<0, 0, 32768, 0>>, <<0, 0, 32768, 5>>, <<0, 0, 65535, 65535>>, <<0, 1, 0, 0>>, <<0, 1, 0, 7>>, <<0, 2, 0, 1>>}

ExtApis == {"sstx", "astx", "nstx", "dstx"}
PlApis == {"cbc", "ncbc", "dcbc", "someaux", "amaux", "naux", "daux", "ssts", "asts", "nsts", "dsts"} \cup ExtApis
(* C17 on the model: evaluated per case *)
IsPrefixOfStream(s) == \A i \in 1..Len(s) : s[i] = Tok(i)
CaseOK(api, sk, kk, n, L, R, ss, ks) ==
    LET o == Result(api, sk, kk, n, L, R, ss, ks)
        rc == o[1]
    IN CASE api \in {"get", "getam"} /\ n > 0 ->
              LET dest == Drop(o, 2)
                  placed == SelectSeq(dest, LAMBDA x : x # 170)
              IN /\ IsPrefixOfStream(placed) /\ Len(placed) = o[2]          \* no loss, duplication, reordering
                 /\ (api = "get" /\ rc >= 0 => rc = n /\ Len(placed) = n)   \* exactly N
                 /\ (api = "getam" /\ rc >= 0 => rc = Len(placed) /\ rc <= n)
                 /\ (rc < 0 => rc \in {EIO, ENODATA} \/ (api = "getam" /\ rc \in {EINTR, EAGAIN}))
         [] api \in {"put", "putam"} /\ n > 0 ->
              LET got == Drop(o, 1)
              IN /\ IsPrefixOfStream(got)
                 /\ (api = "put" /\ rc >= 0 => rc = n /\ Len(got) = n)
                 /\ (api = "putam" /\ rc >= 0 => rc = Len(got) /\ rc <= n)
                 /\ (rc < 0 => rc = EIO \/ (api = "putam" /\ rc \in {EINTR, EAGAIN}))
         [] api \in PlApis ->
              LET got == Drop(o, 3)
              IN /\ IsPrefixOfStream(got) /\ Len(got) <= o[2]
                 /\ (api \in {"ncbc", "naux", "nsts", "nstx"} /\ rc >= 0 => rc = n /\ Len(got) = n /\ o[2] = n)
                 /\ (api \in {"amaux", "asts", "astx"} /\ rc >= 0 => Len(got) <= n /\ rc = Len(got))
                 /\ (api \in {"dcbc", "daux", "dsts", "dstx"} => rc < 0 /\ (rc = ENODATA => Len(got) = L))
         [] OTHER -> TRUE

---------------------------------------------------------------------------
(* E1: case enumeration, bucketed over initial states for TLC's workers *)
Scripts(B, k) == SeqsUpTo(B, k)
Line(api, sk, kk, n, L, R, ss, ks) ==
    api \o " " \o Join(<<sk, kk, n, L, R, Len(ss)>> \o ss \o <<Len(ks)>> \o ks) \o " | "
RwApis == {"get", "getam", "put", "putam"}
Init == /\ phase \in {<<"b", api, k>> : api \in RwApis \cup PlApis \cup {"geto", "puto"}, k \in {1, 2}} \cup {<<"b", "putbig", 2>>, <<"b", "getbig", 2>>} /\ ev = Boot
Next == /\ phase[1] = "b" /\ ev' = Boot
        /\ LET api == phase[2]
               k == phase[3]
           IN \/ /\ api \in {"get", "getam"}
                 /\ \E n \in -1..MaxN, L \in {MaxN + 1, 2}, ss \in Scripts(Beh, MaxScript) :
                       (n > 0 \/ api = "get") /\ (n < 0 => Len(ss) <= 1) /\ phase' = <<"c", api, k, 2, n, L, 0, ss, <<>>>>
              \/ /\ api \in {"put", "putam"}
                 /\ \E n \in -1..MaxN, ks \in Scripts(Beh, MaxScript) :
                       (n > 0 \/ api = "put") /\ (n < 0 => Len(ks) <= 1) /\ phase' = <<"c", api, 2, k, n, 0, 0, <<>>, ks>>
              \/ /\ api \in {"get", "put"}                       \* long runs of interruptions inside an exact transfer
                 /\ \E n \in {2, 3}, sc \in {<<9>>, <<1, 9>>, <<9, 1>>, <<2, 9, 9>>, <<9, EIO>>, <<1, 9, EIO>>, <<9, 0, 9>>} :
                       phase' = IF api = "get" THEN <<"c", api, k, 2, n, 4, 0, sc, <<>>>> ELSE <<"c", api, 2, k, n, 0, 0, <<>>, sc>>
              \/ /\ api \in {"putbig", "getbig"}
                 /\ \E n4 \in BigNs, ks \in Scripts(BBeh, 2) : phase' = <<"c", api, 2, 2, n4, 0, 0, <<>>, ks>>
              \/ /\ api = "geto" /\ \E L \in {0, 1}, ss \in Scripts(Beh, 1) : phase' = <<"c", api, k, 2, 1, L, 0, ss, <<>>>>
              \/ /\ api = "puto" /\ \E ks \in Scripts(Beh, 1) : phase' = <<"c", api, 2, k, 1, 0, 0, <<>>, ks>>
              \/ /\ api \in PlApis
                 /\ \E kk \in {1, 2}, n \in 1..3, L \in {2, 4}, R \in {1, 2, 3, 11, 12, 13, 21, 22, 23},   \* R + 10: the region starts 2 octets into the block, R + 20: 8 octets
                       ss \in Scripts(PBeh, MaxPScript), ks \in Scripts(PBeh, MaxKScript) :
                       /\ (api \in {"cbc", "ncbc", "dcbc", "ssts", "asts", "nsts", "dsts"} => R = 1)
                       /\ (api \notin {"someaux", "amaux", "naux", "daux"} => R < 10)
                       /\ (api \in ExtApis => (\A i \in 1..Len(ss) : ss[i] # ENOMEM) /\ (\A i \in 1..Len(ks) : ks[i] # ENOMEM))   \* a full sink behind a source-offered buffer: not specified
                       /\ (api \in {"sstx", "dstx"} => k = 2)                               \* "some" and "drain": chunk-style sources only
                       /\ (api \in {"astx", "nstx"} /\ k = 1 => L = 4 /\ n <= 2 /\ (\A i \in 1..Len(ss) : ss[i] # EIO))   \* octet-style: plenty of data
                       /\ (api \in {"cbc", "dcbc", "someaux", "daux", "ssts", "dsts", "sstx", "dstx"} => n = 1)
                       /\ phase' = <<"c", api, k, kk, n, L, R, ss, ks>>
Spec == Init /\ [][Next]_<<vars, ev>>

P == phase
IsBig == P[2] \in {"putbig", "getbig"}
CaseInv == phase[1] = "c" /\ ~IsBig => CaseOK(P[2], P[3], P[4], P[5], P[6], P[7], P[8], P[9])
(* alternatives (R4): a zero-length read in the aux plumbing may be reported as 0 moved or refused as
   invalid, and the sink may be offered nothing in either case *)
Alts(api, o) == IF api \in {"someaux", "amaux", "naux", "daux"} THEN <<o>> ELSE <<o>>
EmitCases == phase[1] = "c" =>
    IF IsBig THEN PrintT("C;;" \o P[2] \o " " \o Join(P[5] \o <<Len(P[9])>> \o P[9]) \o " | " \o Join(BigResult(P[5], P[9])))
    ELSE PrintT("C;;" \o Line(P[2], P[3], P[4], P[5], P[6], P[7], P[8], P[9])
                \o Join(Result(P[2], P[3], P[4], P[5], P[6], P[7], P[8], P[9])))
=============================================================================
