SPECIFICATION Spec
CONSTANTS
  Octets = {0, 1, 2, 127, 128, 129, 254, 255, 85, 170, 16, 32, 64, 4, 8, 49}
  HostLE = 1
VIEW View
INVARIANT TypeOK
PROPERTIES TableMatchesBitwise StepIsXorThenStepZero
CONSTRAINT EmitTable
CHECK_DEADLOCK FALSE
