SPECIFICATION TSpec
CONSTANTS
  Classes = {192, 219, 220, 221, 65}
  MaxRaw = 1
  MaxRawErr = 1
  MaxPayload = 1
  MaxGarbage = 1
POSTCONDITION Accepted
CHECK_DEADLOCK FALSE
