SPECIFICATION TSpec
INVARIANT ConstraintInv
PROPERTIES RefusedUnchanged InitAcceptsIffWellFormed SanitiseRestores SetGetRoundTrip
POSTCONDITION Accepted
CHECK_DEADLOCK FALSE
