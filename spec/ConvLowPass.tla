------------------------------- MODULE ConvLowPass -------------------------------
(* The sliding-window low pass of include/ufw/convolution-low-pass.h (macro-generated per element type; extra X11).

   Abstract state: the window - the last (at most len) values handed to update, oldest first - and the average
   computed by the last update.  The code keeps the window in a circular buffer with a "first round" flag; that is
   its business, a user sees:
     update(v)            the window slides, avg = sum of the window / its size (C division: towards zero)
     avg()                the average of the last update (0 after init)
     has_min_values(c)    c <= len and at least c values are in the window
     median(tmp)          the middle element of the sorted window, the C mean of the two middle ones for an even
                          size, 0 for an empty window
     init(buffer, len)    empties the window, also of an instance in use (with another length)                   *)
EXTENDS Emit, SequencesExt, FiniteSetsExt, TLC

CONSTANTS Lens, PosVals, NegVals, MaxHist
Vals == PosVals \cup {-x : x \in NegVals}          \* (a cfg file cannot spell a negative number)
VARIABLES len, win, avg, hist, ev
vars == <<len, win, avg, hist>>

CDiv(a, b) == IF a >= 0 THEN a \div b ELSE -((-a) \div b)              \* b > 0
Sum(s) == FoldLeft(LAMBDA acc, x : acc + x, 0, s)
Sorted(s) == SortSeq(s, LAMBDA a, b : a < b)
Median(w) == IF w = <<>> THEN 0
             ELSE LET s == Sorted(w) n == Len(w)
                  IN IF n % 2 = 1 THEN s[n \div 2 + 1] ELSE CDiv(s[n \div 2 + 1] + s[n \div 2], 2)
HasMin(c) == c <= len /\ Len(win) >= c
(* what every call is followed by: avg, has_min_values(0..len+1), median *)
Obs(l, w, a) == <<a>> \o [c \in 1..l + 2 |-> IF c - 1 <= l /\ Len(w) >= c - 1 THEN 1 ELSE 0] \o <<IF w = <<>> THEN 0 ELSE Median(w)>>

Init == len = 0 /\ win = <<>> /\ avg = 0 /\ hist = <<>> /\ ev = Boot
DoInit(l) == /\ len' = l /\ win' = <<>> /\ avg' = 0 /\ hist' = <<>>
             /\ ev' = Ev("init", <<l>>, Obs(l, <<>>, 0))
Update(v) == /\ len > 0 /\ Len(hist) < MaxHist
             /\ LET w == IF Len(win) < len THEN Append(win, v) ELSE Append(Tail(win), v)
                    a == CDiv(Sum(w), Len(w))
                IN /\ win' = w /\ avg' = a /\ ev' = Ev("update", <<v>>, Obs(len, w, a))
             /\ hist' = Append(hist, v) /\ UNCHANGED len
Next == (\E l \in Lens : DoInit(l)) \/ (\E v \in Vals : Update(v))
Spec == Init /\ [][Next]_<<vars, ev>>

(* ------------------------------------------------------------------ what a user relies on *)
WindowIsTheRecentPast == win = SubSeq(hist, MaxOf(1, Len(hist) - len + 1), Len(hist))
AvgWithinWindow == win # <<>> => avg >= Min(ToSet(win)) /\ avg <= Max(ToSet(win))
AvgExact == win # <<>> => LET n == Len(win) s == Sum(win) IN avg * n <= s + (n - 1) /\ avg * n >= s - (n - 1) /\ (s % n = 0 => avg * n = s)
MedianSplits == win # <<>> => LET m == Median(win) n == Len(win)
                              IN /\ 2 * Cardinality({k \in 1..n : win[k] <= m}) >= n - (IF n % 2 = 0 THEN 1 ELSE 0) \* (the C mean of two rounds towards zero)
                                 /\ 2 * Cardinality({k \in 1..n : win[k] >= m}) >= n - (IF n % 2 = 0 THEN 1 ELSE 0)
                                 /\ m >= Min(ToSet(win)) /\ m <= Max(ToSet(win))
MinValuesMonotone == \A c \in 0..len + 1 : HasMin(c) <=> (c <= len /\ c <= Len(hist))
ConstantInput == (win # <<>> /\ \A k \in 1..Len(win) : win[k] = win[1]) => avg = win[1] /\ Median(win) = win[1]

Key == ToString(<<len, win, avg, Len(hist)>>)
View == vars
EmitAll == EmitEdge(Key, ToString(<<len', win', avg', Len(hist')>>), ev')
EmitInit == ev.op = "boot" => EmitInitial(Key)
=============================================================================
