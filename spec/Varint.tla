------------------------------- MODULE Varint -------------------------------
(* ufw variable-length integers (src/variable-length-integer.c), property C14.
   Little-endian base-128: 7 data bits per octet, bit 7 = "more follows".

   Values are sequences of 7-bit groups, least significant first (R2: TLC integers are 32 bit), of
   length 5 (32-bit types; the 5th group has 4 significant bits) or 10 (64-bit; the 10th has 1).

   Decoder = transducer fed one octet at a time (this is what the source decoder literally does; the
   buffer decoder must be equivalent).  Its state after the whole input has been fed determines the
   prescribed result of *both* decoders on that input placed in an exact-size block:
     more     no terminator yet and fewer than Max octets seen: the input is cut off -> both decoders
              fail, the buffer decoder consumes nothing (and must not read past the block);
     done     terminator seen at octet n <= Max: both return n and the same value;
     illegal  Max octets without terminator: both report "illegal sequence" (-84).                   *)
EXTENDS Emit, SequencesExt

CONSTANTS OctetClasses   \* octets fed by the model

VARIABLES ty, st, n, acc, ev
vars == <<ty, st, n, acc>>

MaxOctets(t) == IF t = 32 THEN 5 ELSE 10
TopBits(t) == IF t = 32 THEN 16 ELSE 2         \* modulus of the most significant group
Pad(g, k) == g \o Fill(k - Len(g), 0)
(* value of the type from accumulated groups: bits beyond the width are dropped *)
Trunc(t, g) == LET p == Pad(g, MaxOctets(t))
               IN [i \in 1..MaxOctets(t) |-> IF i = MaxOctets(t) THEN p[i] % TopBits(t) ELSE p[i]]
Overflows(t, g) == Len(g) = MaxOctets(t) /\ g[MaxOctets(t)] >= TopBits(t)

---------------------------------------------------------------------------
(* encoder: minimal form *)
RECURSIVE StripZeros(_)
StripZeros(g) == IF Len(g) > 1 /\ g[Len(g)] = 0 THEN StripZeros(Take(g, Len(g) - 1)) ELSE g
Encode(g) == LET m == StripZeros(g)
             IN [i \in 1..Len(m) |-> IF i < Len(m) THEN m[i] + 128 ELSE m[i]]
LengthOf(g) == Len(StripZeros(g))

---------------------------------------------------------------------------
(* decoder transducer, functional core *)
Start(t) == [ty |-> t, st |-> "more", n |-> 0, acc |-> <<>>]
FeedF(s, o) == IF s.st # "more" THEN s      \* trailing octets are not looked at
               ELSE LET a == Append(s.acc, o % 128)
                        k == s.n + 1
                    IN IF o < 128 THEN [s EXCEPT !.st = "done", !.n = k, !.acc = a]
                       ELSE IF k = MaxOctets(s.ty) THEN [s EXCEPT !.st = "illegal", !.n = k, !.acc = a]
                       ELSE [s EXCEPT !.n = k, !.acc = a]
DecodeStr(t, str) == FoldLeft(FeedF, Start(t), str)

EILSEQ == -84
(* Observation of the adapter's "dec" event:  rcb offb <value groups>  rcs srcpos <value groups>
   (value groups only on success).  Alternatives (R4): when bits beyond the type's width are set the
   statement does not say whether the decoders truncate or reject - both must do the same.        *)
ObsOk(s) == <<s.n, s.n>> \o Trunc(s.ty, s.acc) \o <<s.n, s.n>> \o Trunc(s.ty, s.acc)
ObsFor(s, len) ==
    CASE s.st = "done" -> IF Overflows(s.ty, s.acc) THEN <<ObsOk(s), <<-1, 0, -1>>, <<EILSEQ, 0, EILSEQ>>>>
                          ELSE <<ObsOk(s)>>
      [] s.st = "illegal" -> <<<<EILSEQ, 0, EILSEQ>>>>
      [] OTHER -> <<<<-1, 0, -1>>>>

Init == ty = 0 /\ st = "idle" /\ n = 0 /\ acc = <<>> /\ ev = Boot
Begin(t) == /\ st = "idle" /\ ty' = t /\ st' = "more" /\ n' = 0 /\ acc' = <<>>
            /\ ev' = [op |-> "begin", a |-> <<t>>, o |-> <<>>, alts |-> ObsFor(Start(t), 0)]
Feed(o) == /\ st # "idle"
           /\ LET s2 == FeedF([ty |-> ty, st |-> st, n |-> n, acc |-> acc], o)
              IN /\ ty' = s2.ty /\ st' = s2.st /\ n' = s2.n /\ acc' = s2.acc
                 /\ ev' = [op |-> "feed", a |-> <<o>>, o |-> <<>>, alts |-> ObsFor(s2, 0)]
Next == (\E t \in {32, 64} : Begin(t)) \/ (\E o \in OctetClasses : Feed(o))
Spec == Init /\ [][Next]_<<vars, ev>>

---------------------------------------------------------------------------
(* C14 on the model *)
TypeOK == n <= 10 /\ Len(acc) = n
TerminatesWithinMax == st \in {"idle", "more", "done", "illegal"} /\ (st = "more" => n < MaxOctets(ty))
                       /\ (st = "illegal" => n = MaxOctets(ty))
(* round trip and minimality on a family of values (boundaries 2^(7k)-1, 2^(7k), type limits) *)
Boundary(t) == LET M == MaxOctets(t)
               IN {Pad(Fill(k, 127), M) : k \in 0..M - 1}                                  \* 2^(7k)-1
                  \cup {Pad(Fill(k, 0) \o <<1>>, M) : k \in 0..M - 1}                      \* 2^(7k)
                  \cup {Pad(<<1>> \o Fill(k, 0) \o <<1>>, M) : k \in 0..M - 2}             \* 2^(7k)+1
                  \cup {Trunc(t, Fill(M, 127))}                                            \* all ones / -1
                  \cup {Pad(Fill(M - 1, 0), M - 1) \o <<TopBits(t) \div 2>>}               \* sign bit only
                  \cup {Fill(M - 1, 127) \o <<(TopBits(t) \div 2) - 1>>}                   \* max signed
EncodeMinimal == \A t \in {32, 64} : \A g \in Boundary(t) :
                    LET e == Encode(g)
                    IN /\ Len(e) = LengthOf(g) /\ Len(e) <= MaxOctets(t)
                       /\ (Len(e) > 1 => e[Len(e)] # 0)
                       /\ \A i \in 1..Len(e) : (e[i] >= 128) <=> (i < Len(e))
DecodeInvertsEncode == \A t \in {32, 64} : \A g \in Boundary(t) :
                          LET s == DecodeStr(t, Encode(g) \o <<255, 1>>)
                          IN s.st = "done" /\ s.n = Len(Encode(g)) /\ Trunc(t, s.acc) = g
ASSUME EncodeMinimal /\ DecodeInvertsEncode

Key == ToString(vars)
View == vars
EmitAll == PrintT("E;;" \o Key \o ";;" \o ToString(<<ty', st', n', acc'>>) \o ";;"
                  \o ev'.op \o " " \o Join(ev'.a) \o " | " \o JoinAlts(ev'.alts))
EmitInit == ev.op = "boot" => EmitInitial(Key)
(* encoder cases for E1:  enc ty signed g1..gM | rc lenquery <octets> *)
EncCase(t, sg, g) == "enc " \o Join(<<t, sg>> \o g) \o " | "
                     \o Join(<<Len(Encode(g)), LengthOf(g)>> \o Encode(g) \o <<-7>> \o Encode(g))
EmitEnc == ev.op = "boot" => \A t \in {32, 64} : \A g \in Boundary(t) : \A sg \in {0, 1} : EmitCase(EncCase(t, sg, g))
=============================================================================
