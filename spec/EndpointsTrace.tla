---------------------------- MODULE EndpointsTrace ----------------------------
(* E2: recorded endpoint calls (long transfers, long random driver scripts) recomputed from Endpoints.tla *)
EXTENDS Endpoints, Json, IOUtils
TraceLog == ndJsonDeserialize(IOEnv.TRACE)
VARIABLE l
e == TraceLog[l]
TInit == phase = <<"trace">> /\ ev = Boot /\ l = 1
Nss == e.a[6]
Ss == SubSeq(e.a, 7, 6 + Nss)
Nks == e.a[7 + Nss]
Ks == SubSeq(e.a, 8 + Nss, 7 + Nss + Nks)
(* chsrc nc (size used off) x nc act n: the library's own source over a chunk list (source_from_chunks): chunk i holds the octets
   (40 i + p + 1) % 256 at positions p (i, p 0-based); what is to be read is the unread part of every chunk from the active one
   on, in order, empty fragments anywhere among them.  First exactly n octets are asked for, then the rest is drained. *)
ChunkOctets(a) == LET nc == a[1]
                      act == a[2 + 3 * nc]
                      piece(i) == [p \in 1..(a[3 * i + 3] - a[3 * i + 4]) |-> (40 * i + a[3 * i + 4] + p) % 256]     \* chunk i (0-based): used - off octets from off
                      RECURSIVE cat(_)
                      cat(i) == IF i >= nc THEN <<>> ELSE piece(i) \o cat(i + 1)
                  IN cat(act)
ChsrcObs(a) == LET d == ChunkOctets(a)
                   n == a[3 + 3 * a[1]]
               IN IF n <= Len(d) THEN <<n>> \o Take(d, n) \o <<-7>> \o Drop(d, n) ELSE <<ENODATA, -7>>
Expected == IF e.op = "chsrc" THEN ChsrcObs(e.a) ELSE Result(e.op, e.a[1], e.a[2], e.a[3], e.a[4], e.a[5], Ss, Ks)
TNext == /\ l <= Len(TraceLog) /\ l' = l + 1
         /\ (e.op # "@" => e.o = Expected /\ e.asan = 0)
         /\ UNCHANGED <<vars, ev>>
TSpec == TInit /\ [][TNext]_<<vars, ev, l>>
Accepted == LET k == TLCGet("stats").diameter - 1
            IN PrintT("L;;" \o ToString(k)) /\ k = Len(TraceLog)
=============================================================================
