---------------------------- MODULE EndpointsTrace ----------------------------
(* E2: recorded endpoint calls (long transfers, long random driver scripts) recomputed from Endpoints.tla *)
EXTENDS Endpoints, Json, IOUtils
TraceLog == ndJsonDeserialize(IOEnv.TRACE)
VARIABLE l
e == TraceLog[l]
TInit == phase = <<"trace">> /\ ev = Boot /\ l = 1
Nss == e.a[6]
Ss == SubSeq(e.a, 7, 6 + Nss)
Nks == e.a[7 + Nss]
Ks == SubSeq(e.a, 8 + Nss, 7 + Nss + Nks)
Expected == Result(e.op, e.a[1], e.a[2], e.a[3], e.a[4], e.a[5], Ss, Ks)
TNext == /\ l <= Len(TraceLog) /\ l' = l + 1
         /\ (e.op # "@" => e.o = Expected /\ e.asan = 0)
         /\ UNCHANGED <<vars, ev>>
TSpec == TInit /\ [][TNext]_<<vars, ev, l>>
Accepted == LET k == TLCGet("stats").diameter - 1
            IN PrintT("L;;" \o ToString(k)) /\ k = Len(TraceLog)
=============================================================================
