SPECIFICATION Spec
CONSTANTS
  Classes = {192, 219, 220, 221, 65}
  MaxRaw = 8
  MaxRawErr = 5
  MaxPayload = 7
  MaxGarbage = 4
INVARIANT CaseOK
CONSTRAINT EmitCases
CHECK_DEADLOCK FALSE
