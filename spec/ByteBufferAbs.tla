--------------------------- MODULE ByteBufferAbs ---------------------------
(* Unbounded-capacity abstraction of ByteBuffer.tla: only the three counters.  Used with Apalache to show that
   0 <= offset <= used <= size is an *inductive* invariant for every capacity and every operand (C18, first
   sentence), complementing TLC's exhaustive exploration of capacities up to 5.
     apalache-mc check --init=IndInit --inv=IndInv --length=1 ByteBufferAbs.tla    (inductive step)
     apalache-mc check --init=Init --inv=IndInv --length=0 ByteBufferAbs.tla       (base case)          *)
EXTENDS Integers

VARIABLES
    \* @type: Int;
    size,
    \* @type: Int;
    used,
    \* @type: Int;
    offset

Init == size = 0 /\ used = 0 /\ offset = 0
IndInv == 0 <= offset /\ offset <= used /\ used <= size
IndInit == size \in Int /\ used \in Int /\ offset \in Int /\ IndInv

Set(sz, us, off) == /\ sz > 0 /\ us <= sz /\ off <= us /\ us >= 0 /\ off >= 0
                    /\ size' = sz /\ used' = us /\ offset' = off
Add(n) == /\ n >= 0
          /\ IF n <= size - used THEN used' = used + n /\ UNCHANGED <<size, offset>> ELSE UNCHANGED <<size, used, offset>>
Consume(n) == /\ n >= 0
              /\ IF n <= used - offset THEN offset' = offset + n /\ UNCHANGED <<size, used>> ELSE UNCHANGED <<size, used, offset>>
ConsumeAtMost(n) == /\ n >= 0
                    /\ LET k == IF n < used - offset THEN n ELSE used - offset
                       IN offset' = offset + k /\ UNCHANGED <<size, used>>
Rewind == used' = used - offset /\ offset' = 0 /\ UNCHANGED size
Empty == used' = 0 /\ offset' = 0 /\ UNCHANGED size
Repeat == offset' = 0 /\ UNCHANGED <<size, used>>
Next == \/ \E sz \in Int, us \in Int, off \in Int : Set(sz, us, off)
        \/ \E n \in Int : Add(n) \/ Consume(n) \/ ConsumeAtMost(n)
        \/ Rewind \/ Empty \/ Repeat
=============================================================================
