------------------------------- MODULE Emit -------------------------------
(* Shared plumbing: events, their textual form, and the operators every model uses to hand its
   transition relation to the replay harness (E1) or to read a recorded trace (E2).

   An event is a record [op |-> STRING, a |-> Seq(Int), o |-> Seq(Int)]:
   operation name, integer arguments, integer observation (what the adapter projects after the
   public call returned).  The executor (harness/driver.c) uses the same shape.               *)
EXTENDS Integers, Sequences, TLC

RECURSIVE Join(_)
Join(s) == IF s = <<>> THEN ""
           ELSE IF Len(s) = 1 THEN ToString(Head(s))
           ELSE ToString(Head(s)) \o " " \o Join(Tail(s))

RECURSIVE JoinAlts(_)
(* a sequence of alternative observations (R4: set of allowed outcomes) *)
JoinAlts(alts) == IF Len(alts) = 1 THEN Join(Head(alts))
                  ELSE Join(Head(alts)) \o " || " \o JoinAlts(Tail(alts))

EvLine(e) == e.op \o " " \o Join(e.a) \o " | " \o Join(e.o)
EvLineAlts(e, alts) == e.op \o " " \o Join(e.a) \o " | " \o JoinAlts(alts)

Boot == [op |-> "boot", a |-> <<>>, o |-> <<>>]
Ev(name, args, observation) == [op |-> name, a |-> args, o |-> observation]

(* E;;pre;;post;;line   one generated transition;   I;;key   an initial state *)
EmitEdge(pre, post, e) == PrintT("E;;" \o pre \o ";;" \o post \o ";;" \o EvLine(e))
EmitInitial(key) == PrintT("I;;" \o key)
(* C;;line   a stand-alone case (stateless models) *)
EmitCase(line) == PrintT("C;;" \o line)

(* sequences *)
Take(s, n) == SubSeq(s, 1, n)
Drop(s, n) == SubSeq(s, n + 1, Len(s))
RECURSIVE SeqsUpTo(_, _)
SeqsUpTo(S, n) == IF n = 0 THEN {<<>>}
                  ELSE LET R == SeqsUpTo(S, n - 1)
                       IN R \cup {Append(r, x) : r \in {t \in R : Len(t) = n - 1}, x \in S}
Fill(n, v) == [i \in 1..n |-> v]
MinOf(a, b) == IF a < b THEN a ELSE b
MaxOf(a, b) == IF a > b THEN a ELSE b
=============================================================================
