#include <signal.h>
#include <stdio.h>
#include <stdlib.h>
#include <string.h>
#include <unistd.h>
#include <sys/time.h>

#include "driver.h"

int harness_flavour = 0;
/* progress heartbeat of long loops inside an adapter: the watchdog then bounds every single library call, not the loop */
/* The watchdog counts the CPU time of this process (20 s per library call), not wall-clock time: a machine that is busy, or a
 * virtual machine that is paused for a snapshot, must not look like a call that does not return.  (A wall-clock limit of half an
 * hour per call stays as a backstop for a call that blocks without using the CPU.) */
static void watchdog(long cpu_s, unsigned wall_s)
{
    struct itimerval it = { { 0, 0 }, { cpu_s, 0 } };
    setitimer(ITIMER_PROF, &it, NULL);
    alarm(wall_s);
}
void driver_kick(void) { watchdog(20, 1800); }
volatile int asan_reports = 0;
static long lineno = 0;
static char tag[256] = "-";
static int in_exec = 0;
static Ev ev;
static int diverged = 0; /* a mismatch was already reported in this script */

#if defined(__has_feature)
#if __has_feature(address_sanitizer)
#define WITH_ASAN 1
#endif
#endif
#if defined(__SANITIZE_ADDRESS__)
#define WITH_ASAN 1
#endif

#ifdef WITH_ASAN
void __asan_set_error_report_callback(void (*cb)(const char *));
void __sanitizer_set_death_callback(void (*cb)(void));
static char last_report[512];
static void on_asan(const char *msg)
{
    asan_reports++;
    /* keep the first line of the report (kind of error) */
    const char *p = strstr(msg, "ERROR: AddressSanitizer:");
    if (p == NULL) p = msg;
    size_t n = strcspn(p, "\n");
    if (n >= sizeof last_report) n = sizeof last_report - 1;
    memcpy(last_report, p, n);
    last_report[n] = 0;
}
/* UndefinedBehaviorSanitizer (recover mode): every report is counted like an ASan report and attributed to the event being executed */
void __ubsan_get_current_report_data(const char **kind, const char **msg, const char **file, unsigned *line, unsigned *col, char **addr);
void __ubsan_on_report(void)
{
    const char *kind = "", *msg = "", *file = "";
    unsigned line = 0, col = 0;
    char *addr = NULL;
    __ubsan_get_current_report_data(&kind, &msg, &file, &line, &col, &addr);
    asan_reports++;
    const char *base = strrchr(file, '/');
    snprintf(last_report, sizeof last_report, "ERROR: UndefinedBehaviorSanitizer: %s: %s (%s:%u)", kind, msg, base ? base + 1 : file, line);
}
static void on_death(void)
{
    printf("CRASH %ld %s %s\n", lineno, tag, last_report);
    fflush(stdout);
}
#endif

static void on_signal(int sig)
{
    char buf[400];
    int n = snprintf(buf, sizeof buf, "%s %ld %s signal=%d\n",
                     (sig == SIGALRM || sig == SIGPROF) ? "HANG" : "CRASH", lineno, tag, sig);
    fflush(stdout);
    if (write(1, buf, (size_t)n) < 0) {}
    _exit((sig == SIGALRM || sig == SIGPROF) ? 3 : 4);
}

int ev_is(const Ev *ev, const char *name) { return strcmp(ev->name, name) == 0; }

#ifdef WITH_ASAN
void __asan_poison_memory_region(void const volatile *addr, size_t size);
void __asan_unpoison_memory_region(void const volatile *addr, size_t size);
#endif
void *xblock0(void)
{
    /* a zero-length block: one octet, poisoned, so that any access is reported */
    unsigned char *p = malloc(1);
#ifdef WITH_ASAN
    __asan_poison_memory_region(p, 1);
#endif
    return p;
}
void xfree0(void *p)
{
#ifdef WITH_ASAN
    __asan_unpoison_memory_region(p, 1);
#endif
    free(p);
}

void *xblock(size_t n)
{
    /* malloc(0) may return NULL or a unique pointer; ask for the exact size so
     * that any access is a redzone hit.  */
    void *p = malloc(n ? n : 1);
    if (p == NULL) { fprintf(stderr, "oom\n"); exit(2); }
    if (n == 0) {
        /* a zero-size block: poison the single octet by freeing a 1-octet
         * block and allocating size 0 is not portable; keep 1 octet and let the
         * adapters treat it as opaque.  */
    }
    return p;
}
void xfree(void *p) { free(p); }

void put_w64(Ev *ev, uint64_t v)
{
    obs(ev, (long long)((v >> 48) & 0xffff));
    obs(ev, (long long)((v >> 32) & 0xffff));
    obs(ev, (long long)((v >> 16) & 0xffff));
    obs(ev, (long long)(v & 0xffff));
}
uint64_t get_w64(const long long *a)
{
    return ((uint64_t)(a[0] & 0xffff) << 48) | ((uint64_t)(a[1] & 0xffff) << 32)
         | ((uint64_t)(a[2] & 0xffff) << 16) | (uint64_t)(a[3] & 0xffff);
}
void put_w32(Ev *ev, uint32_t v)
{
    obs(ev, (long long)((v >> 16) & 0xffff));
    obs(ev, (long long)(v & 0xffff));
}
uint32_t get_w32(const long long *a)
{
    return ((uint32_t)(a[0] & 0xffff) << 16) | (uint32_t)(a[1] & 0xffff);
}

static long long expv[MAXV];

/* parse ints from *p up to a '|' or end; returns count */
static int parse_ints(char **p, long long *out, int max)
{
    int n = 0;
    char *s = *p;
    for (;;) {
        while (*s == ' ' || *s == '\t' || *s == ',') s++;
        if (*s == 0 || *s == '|' || *s == '\n' || *s == '\r') break;
        char *e;
        long long v = strtoll(s, &e, 10);
        if (e == s) { fprintf(stderr, "bad token at line %ld: %s\n", lineno, s); exit(2); }
        if (n < max) out[n++] = v;
        s = e;
    }
    *p = s;
    return n;
}

int main(int argc, char **argv)
{
    int record = 0, quiet_ok = 1;
    long mism = 0, asan_ev = 0, checked = 0, executed = 0;
    long maxreport = 50;
    for (int i = 1; i < argc; i++) {
        if (strcmp(argv[i], "-r") == 0) record = 1;
        else if (strcmp(argv[i], "-v") == 0) quiet_ok = 0;
    }
#ifdef WITH_ASAN
    __asan_set_error_report_callback(on_asan);
    __sanitizer_set_death_callback(on_death);
#endif
    signal(SIGALRM, on_signal);
    signal(SIGPROF, on_signal);
    static char obuf[1 << 16];
    setvbuf(stdout, obuf, _IOFBF, sizeof obuf);

    char *line = NULL;
    size_t cap = 0;
    ssize_t len;
    while ((len = getline(&line, &cap, stdin)) > 0) {
        lineno++;
        char *p = line;
        while (*p == ' ') p++;
        if (*p == '#' || *p == '\n' || *p == 0) continue;
        if (*p == '!') {
            /* harness directive, e.g. "!flav 3" */
            if (strncmp(p, "!flav", 5) == 0) harness_flavour = atoi(p + 5);
            continue;
        }
        if (*p == '@') {
            harness_flavour = 0;
            size_t n = strcspn(p + 1, "\r\n");
            if (n >= sizeof tag) n = sizeof tag - 1;
            memcpy(tag, p + 1, n);
            tag[n] = 0;
            diverged = 0;
            strcpy(ev.name, "@"); ev.na = 0; ev.no = 0;
            adapter_exec(&ev); /* fresh object for every script */
            if (record) printf("{\"op\":\"@\",\"tag\":\"%s\"}\n", tag);
            continue;
        }
        size_t nl = strcspn(p, " \t|\r\n");
        if (nl >= sizeof ev.name) nl = sizeof ev.name - 1;
        memcpy(ev.name, p, nl);
        ev.name[nl] = 0;
        p += nl;
        ev.na = parse_ints(&p, ev.a, MAXV);
        ev.no = 0;

        int before = asan_reports;
        /* watchdog: 20 s per call; value sweeps executed inside an adapter get half an hour */
        watchdog(20, 1800);          /* value sweeps inside an adapter re-arm it as they make progress (driver_kick) */
        in_exec = 1;
        adapter_exec(&ev);
        in_exec = 0;
        watchdog(0, 0);
        executed++;
        int asan_hit = asan_reports != before;
        if (asan_hit) {
            asan_ev++;
            if (asan_ev <= maxreport) {
#ifdef WITH_ASAN
                printf("ASAN %ld %s %s :: %s\n", lineno, tag, ev.name, last_report);
#endif
            }
        }

        if (record) {
            printf("{\"op\":\"%s\",\"a\":[", ev.name);
            for (int i = 0; i < ev.na; i++) printf(i ? ",%lld" : "%lld", ev.a[i]);
            printf("],\"o\":[");
            for (int i = 0; i < ev.no; i++) printf(i ? ",%lld" : "%lld", ev.o[i]);
            if (harness_flavour) printf("],\"asan\":%d,\"flav\":%d}\n", asan_hit, harness_flavour);
            else printf("],\"asan\":%d}\n", asan_hit);
        }

        if (*p == '|' && !diverged) {
            /* expected alternatives */
            int ok = 0;
            char *q = p;
            checked++;
            while (*q == '|') {
                while (*q == '|') q++;
                int n = parse_ints(&q, expv, MAXV);
                if (n == ev.no && memcmp(expv, ev.o, sizeof(long long) * (size_t)n) == 0) ok = 1;
            }
            if (!ok) {
                mism++;
                diverged = 1;
                if (mism <= maxreport) {
                    printf("MISMATCH %ld %s %s got:", lineno, tag, ev.name);
                    for (int i = 0; i < ev.no; i++) printf(" %lld", ev.o[i]);
                    size_t n = strcspn(p, "\r\n");
                    printf(" expected: %.*s\n", (int)n, p);
                }
            } else if (!quiet_ok) {
                printf("OK %ld\n", lineno);
            }
        }
    }
    printf("DONE adapter=%s lines=%ld executed=%ld checked=%ld mismatches=%ld asan=%ld\n",
           adapter_name, lineno, executed, checked, mism, asan_ev);
    fflush(stdout);
    _exit(0); /* skip leak checking of harness-owned blocks */
}
