/* Adapter: RFC1055/SLIP (C12).
 *  run sof errpos errcode sinkat sinkcode n o1..on | ncalls { rc srcpos outlen out... }
 *      decode calls repeated until the source reports exhaustion (-ENODATA)
 *  enc sof errpos errcode sinkat sinkcode n p1..pn | rc outlen out...
 *  The source is an octet driver (one octet per call; reports errcode once instead of octet number
 *  errpos); the sink is a chunk driver that accepts whole chunks and refuses its sinkat-th chunk once.
 */
#include <errno.h>
#include <stdio.h>
#include <stdlib.h>
#include <string.h>
#include <stdint.h>

#include <ufw/endpoints.h>
#include <ufw/rfc1055.h>

#include "driver.h"

const char *adapter_name = "slip";

typedef struct { const unsigned char *p; size_t n, pos; size_t errpos; int errcode; int armed; } Src;
typedef struct { unsigned char *b; size_t n, cap; size_t puts, at; int code; int armed; } Snk;

static void slip_nested(void);
static int src_octet(void *drv, void *out)
{
    Src *s = drv;
    slip_nested();
    if (s->armed && s->errpos != 0 && s->pos + 1 == s->errpos) { s->armed = 0; return s->errcode; }
    if (s->pos >= s->n) return -ENODATA;
    *(unsigned char *)out = s->p[s->pos++];
    return 1;
}
/* the sink may itself frame something else while it is being fed (every second call): encoder and decoder are expected to be re-entrant */
static int nest_depth;
static unsigned nest_calls;
static ssize_t void_chunk(void *drv, const void *buf, size_t n) { (void)drv; (void)buf; return (ssize_t)n; }
typedef struct { const unsigned char *p; size_t n, pos; } NArr;
static int narr_octet(void *drv, void *out) { NArr *a = drv; if (a->pos >= a->n) return -ENODATA; *(unsigned char *)out = a->p[a->pos++]; return 1; }
static void slip_nested(void)
{
    if (nest_depth || (nest_calls++ % 2)) return;
    static const unsigned char raw[4] = { 192, 219, 1, 192 }, enc[6] = { 192, 219, 220, 219, 221, 192 };
    NArr a1 = { raw, 4, 0 }, a2 = { enc, 6, 0 };
    Source s1 = OCTET_SOURCE_INIT(narr_octet, &a1), s2 = OCTET_SOURCE_INIT(narr_octet, &a2);
    Sink v = CHUNK_SINK_INIT(void_chunk, NULL);
    RFC1055Context c1 = RFC1055_CONTEXT_INIT_WITH_SOF, c2 = RFC1055_CONTEXT_INIT_WITH_SOF;
    nest_depth++;
    (void)rfc1055_encode(&c1, &s1, &v);
    (void)rfc1055_decode(&c2, &s2, &v);
    nest_depth--;
}
static ssize_t snk_chunk(void *drv, const void *buf, size_t n)
{
    Snk *k = drv;
    slip_nested();
    if (k->armed && k->at != 0 && k->puts + 1 == k->at) { k->armed = 0; return k->code; }
    k->puts++;
    if (k->n + n > k->cap) return -ENOMEM; /* would be a "emits more than consumed" situation */
    memcpy(k->b + k->n, buf, n);
    k->n += n;
    return (ssize_t)n;
}

void adapter_exec(Ev *ev)
{
    if (ev_is(ev, "@")) return;
    int isrun = ev_is(ev, "run");
    if (!isrun && !ev_is(ev, "enc")) { fprintf(stderr, "slip: unknown op %s\n", ev->name); exit(2); }
    uint32_t sof = ev->a[0] ? RFC1055_WITH_SOF : RFC1055_DEFAULT;
    if (harness_flavour % 5 == 4) sof |= 0x10u;      /* a flag bit the library does not know: the mode is the SOF bit, whatever else is set */
    size_t n = (size_t)ev->a[5];
    unsigned char *in = n ? xblock(n) : xblock0();
    for (size_t i = 0; i < n; i++) in[i] = (unsigned char)ev->a[6 + i];
    Src s = { in, n, 0, (size_t)ev->a[1], (int)ev->a[2], 1 };
    size_t cap = 2 * n + 8;
    Snk k = { xblock(cap), 0, cap, 0, (size_t)ev->a[3], (int)ev->a[4], 1 };
    /* endpoint flavours (driver.h): the sink keeps its whole-chunk style when a sink refusal is scheduled by call number */
    Source source; Sink sink; FlavOSource fo; FlavSink fk;
    flav_osource_init(&source, &fo, src_octet, &s, harness_flavour & 1);
    flav_sink_init(&sink, &fk, snk_chunk, &k, k.at ? 0 : (harness_flavour % 6) >> 1);
    RFC1055Context ctx;
    rfc1055_context_init(&ctx, sof);
    if (harness_flavour % 4 == 1 && (sof & ~(uint32_t)RFC1055_WITH_SOF) == 0) {
        /* set up with the public static initialisers instead of the init function */
        RFC1055Context c0 = RFC1055_CONTEXT_INIT_DEFAULT, c1 = RFC1055_CONTEXT_INIT_WITH_SOF;
        ctx = sof ? c1 : c0;
    }
    if (harness_flavour >= 6 && !isrun) {
        /* a context that has been used before: one frame (containing both control octets) encoded and thrown away */
        static const unsigned char pre[3] = { 192, 219, 7 };
        Src ps = { pre, 3, 0, 0, 0, 0 };
        unsigned char scratch[16];
        Snk pk = { scratch, 0, sizeof scratch, 0, 0, 0, 0 };
        Source psrc = OCTET_SOURCE_INIT(src_octet, &ps);
        Sink psnk = CHUNK_SINK_INIT(snk_chunk, &pk);
        (void)rfc1055_encode(&ctx, &psrc, &psnk);
    }
    if (isrun) {
        int at = ev->no;
        long long calls = 0;
        obs(ev, 0);
        for (;;) {
            k.n = 0;
            int rc = rfc1055_decode(&ctx, &source, &sink);
            calls++;
            obs(ev, rc);
            obs(ev, (long long)s.pos);
            obs(ev, (long long)k.n);
            for (size_t i = 0; i < k.n; i++) obs(ev, k.b[i]);
            if (rc == -ENODATA || calls >= 40) break;
        }
        ev->o[at] = calls;
    } else {
        int rc = rfc1055_encode(&ctx, &source, &sink);
        obs(ev, rc);
        obs(ev, (long long)k.n);
        for (size_t i = 0; i < k.n; i++) obs(ev, k.b[i]);
    }
    xfree(k.b);
    if (n) xfree(in); else xfree0(in);
}
