/* Adapter: ufw persistent storage (C10, C11).  See spec/Persistent.tla for the event vocabulary.
 *   cfg msize place n alg aux      alg 1 trivial sum (library default), 2 CRC-16/ARC, 3 32-bit sum
 *                                  aux 9999: no auxiliary buffer configured, else exact-size block of aux octets
 *   store n d.. | storep off len d.. | validate | fetch | fetchp off len | reset fill | corrupt a v
 *   reopen                         fresh instance on the same medium
 *   fault k kind                   arm: the k-th medium call of the next operation fails (kind 1: returns 0,
 *                                  transfers nothing; kind 2: transfers and returns len-1)
 *   crash cut torn                 arm: after `cut` complete writes the next write applies `torn` octets only and
 *                                  every later write is dropped (power cut); the operation's rc is meaningless
 * Observation: rc oob struck [medium image | data]
 */
#include <stdio.h>
#include <stdlib.h>
#include <string.h>
#include <stdint.h>

#include <ufw/crc/crc16-arc.h>
#include <ufw/persistent-storage.h>

#include "driver.h"

const char *adapter_name = "persist";

static unsigned char *medium = NULL;
static size_t msize = 0;
static unsigned char *aux = NULL;
static PersistentStorage st;
static struct { long long msize, place, n, alg, aux; } C;
static long long oob, calls, struck;
static struct { int kind; long long k, torn; } arm; /* kind 0 none, 1/2 fault, 3 crash */
static int dead; /* after the power cut */

static int inside(uint32_t a, size_t n)
{
    uint64_t lo = (uint64_t)C.place, hi = (uint64_t)C.place + (C.alg == 3 ? 4 : 2) + (uint64_t)C.n;
    return (uint64_t)a >= lo && (uint64_t)a + n <= hi;
}
/* The medium driver may itself use another storage instance (a journal, say): every second access first stores to and validates a
 * second, tiny instance on a medium of its own.  The storage functions are expected to be re-entrant. */
static unsigned char jmedium[16];
static size_t j_read(void *dst, uint32_t a, size_t n) { if ((size_t)a + n > sizeof jmedium) return 0; memcpy(dst, jmedium + a, n); return n; }
static size_t j_write(uint32_t a, const void *src, size_t n) { if ((size_t)a + n > sizeof jmedium) return 0; memcpy(jmedium + a, src, n); return n; }
static unsigned jcalls;
static int jdepth;
static void journal(void)
{
    if (jdepth || (jcalls++ % 2)) return;
    static PersistentStorage js;
    static unsigned char jaux[3];
    unsigned char img[5] = { 1, 2, 3, 4, (unsigned char)jcalls }, back[5];
    jdepth++;
    persistent_init(&js, sizeof img, j_read, j_write);
    persistent_place(&js, 2);
    persistent_buffer(&js, jaux, sizeof jaux);
    (void)persistent_store(&js, img);
    (void)persistent_validate(&js);
    (void)persistent_fetch(back, &js);
    (void)persistent_store_part(&js, img, 1, 2);
    jdepth--;
}
static uint32_t MB = 0;   /* medium base (event mbase): the library sees medium offset x at address x + MB */
static size_t m_read(void *dst, uint32_t a0, size_t n)
{
    uint32_t a = a0 - MB;
    journal();
    calls++;
    if (!inside(a, n)) { oob++; }
    if ((uint64_t)a + n > msize) { oob++; return 0; }
    if ((arm.kind == 1 || arm.kind == 2 || arm.kind == 4) && calls == arm.k) {
        struck = 1;
        if (arm.kind == 4) return (size_t)-1;          /* a driver whose failure value is SIZE_MAX; nothing transferred */
        if (arm.kind == 1 || n == 0) return 0;
        memcpy(dst, medium + a, n - 1);
        return n - 1;
    }
    if (arm.kind == 5 && (calls == arm.k || calls == arm.k + 1)) {
        /* two faults that cancel out in a sum of counts: read k is one octet short, read k + 1 reports one octet too many */
        struck = 1;
        if (calls == arm.k) { if (n == 0) return 0; memcpy(dst, medium + a, n - 1); return n - 1; }
        memcpy(dst, medium + a, n);
        return n + 1;
    }
    memcpy(dst, medium + a, n);
    return n;
}
static long long writes;
static size_t m_write(uint32_t a0, const void *src, size_t n)
{
    uint32_t a = a0 - MB;
    journal();
    calls++;
    if (!inside(a, n)) { oob++; }
    if ((uint64_t)a + n > msize) { oob++; return 0; }
    if ((arm.kind == 1 || arm.kind == 2 || arm.kind == 4) && calls == arm.k) {
        struck = 1;
        if (arm.kind == 4) return (size_t)-1;
        if (arm.kind == 1 || n == 0) return 0;
        memcpy(medium + a, src, n - 1);
        return n - 1;
    }
    if (arm.kind == 3) {
        if (dead) return n;
        if (writes == arm.k) {
            size_t t = (size_t)arm.torn < n ? (size_t)arm.torn : n;
            memcpy(medium + a, src, t);
            dead = 1; struck = 1;
            writes++;
            return n;
        }
    }
    writes++;
    memcpy(medium + a, src, n);
    return n;
}
static uint16_t crc_cb(const unsigned char *d, size_t n, uint16_t init) { return ufw_crc16_arc(init, d, n); }
static uint32_t sum32_cb(const unsigned char *d, size_t n, uint32_t init)
{
    for (size_t i = 0; i < n; i++) init = (init * 3u + d[i]) % 16777213u;
    return init;
}
/* The configuration calls commute: whatever their order, and whether or not another checksum was configured first, the
 * instance ends up with the same layout.  The order is varied deterministically from one opening to the next. */
static unsigned opens;
static void cfg_sum(int final)
{
    if (final) {
        if (C.alg == 2) persistent_sum16(&st, crc_cb, 7439);
        else if (C.alg == 3) persistent_sum32(&st, sum32_cb, 7);
    } else {
        if (C.alg == 2) persistent_sum32(&st, sum32_cb, 1);      /* a different width first */
        else if (C.alg == 3) persistent_sum16(&st, crc_cb, 1);
    }
}
static void cfg_place(void)
{
    if ((uint32_t)C.place + MB != 0) persistent_place(&st, (uint32_t)C.place + MB);   /* address 0 is the default after init */
}
static void cfg_buffer(void)
{
    if (aux) { xfree(aux); aux = NULL; }
    if (C.aux == 9998) {
        persistent_buffer(&st, NULL, 7);          /* no memory, but a size: as good as no buffer */
    } else if (C.aux != 9999) {
        aux = C.aux ? xblock((size_t)C.aux) : xblock0();
        persistent_buffer(&st, aux, (size_t)C.aux);
    }
}
static void open_instance(void)
{
    memset(&st, 0xA5, sizeof st);        /* initialisation must not rely on a zeroed instance */
    persistent_init(&st, (size_t)C.n, m_read, m_write);
    switch ((opens++ + (unsigned)C.n + (unsigned)C.alg) % 4) {
    case 0: cfg_sum(1); cfg_place(); cfg_buffer(); break;
    case 1: cfg_place(); cfg_sum(1); cfg_buffer(); break;
    case 2: cfg_sum(0); cfg_sum(1); cfg_place(); cfg_buffer(); break;
    default: cfg_buffer(); cfg_place(); cfg_sum(0); cfg_sum(1); break;
    }
}
static void image(Ev *ev) { for (size_t i = 0; i < msize; i++) obs(ev, medium[i]); }
static size_t szarg(long long v) { return v < 0 ? (size_t)0 - (size_t)(-v) : (size_t)v; }

void adapter_exec(Ev *ev)
{
    if (ev_is(ev, "@")) {
        if (medium) { xfree(medium); medium = NULL; }
        if (aux) { if (C.aux) xfree(aux); else xfree0(aux); aux = NULL; }
        msize = 0; memset(&arm, 0, sizeof arm); memset(&C, 0, sizeof C);
        MB = 0;
        return;
    }
    if (ev_is(ev, "mbase")) { MB = ((uint32_t)ev->a[0] << 16) | (uint32_t)ev->a[1]; obs(ev, 0); return; }
    if (ev_is(ev, "cfg")) {
        if (medium) xfree(medium);
        if (aux) { if (C.aux) xfree(aux); else xfree0(aux); aux = NULL; }
        C.msize = ev->a[0]; C.place = ev->a[1]; C.n = ev->a[2]; C.alg = ev->a[3]; C.aux = ev->a[4];
        msize = (size_t)C.msize;
        medium = xblock(msize);
        memset(medium, 238, msize);
        memset(&arm, 0, sizeof arm);
        open_instance();
        obs(ev, 0); obs(ev, 0); obs(ev, 0); image(ev);
        return;
    }
    if (ev_is(ev, "fault")) { arm.kind = (int)ev->a[1]; arm.k = ev->a[0]; obs(ev, 0); obs(ev, 0); obs(ev, 0); return; }
    if (ev_is(ev, "crash")) { arm.kind = 3; arm.k = ev->a[0]; arm.torn = ev->a[1]; obs(ev, 0); obs(ev, 0); obs(ev, 0); return; }
    if (ev_is(ev, "reopen")) {
        memset(&arm, 0, sizeof arm);
        if (aux) { if (C.aux) xfree(aux); else xfree0(aux); aux = NULL; }
        open_instance();
        obs(ev, 0); obs(ev, 0); obs(ev, 0);
        return;
    }
    if (ev_is(ev, "corrupt")) {
        medium[ev->a[0]] = (unsigned char)ev->a[1];
        obs(ev, 0); obs(ev, 0); obs(ev, 0); image(ev);
        return;
    }
    oob = 0; calls = 0; struck = 0; writes = 0; dead = 0;
    long long rc;
    int writes_medium = 0;
    unsigned char *out = NULL; size_t outn = 0;
    if (ev_is(ev, "store")) {
        size_t n = (size_t)ev->a[0];
        unsigned char *src = xblock(n);
        for (size_t i = 0; i < n; i++) src[i] = (unsigned char)ev->a[1 + i];
        rc = persistent_store(&st, src);
        xfree(src); writes_medium = 1;
    } else if (ev_is(ev, "storep")) {
        size_t n = (size_t)ev->a[1];
        unsigned char *src = n ? xblock(n) : xblock0();
        for (size_t i = 0; i < n; i++) src[i] = (unsigned char)ev->a[2 + i];
        rc = persistent_store_part(&st, src, szarg(ev->a[0]), n);
        if (n) xfree(src); else xfree0(src);
        writes_medium = 1;
    } else if (ev_is(ev, "validate")) {
        rc = persistent_validate(&st);
    } else if (ev_is(ev, "fetch")) {
        outn = (size_t)C.n; out = xblock(outn); memset(out, 0x55, outn);
        rc = persistent_fetch(out, &st);
    } else if (ev_is(ev, "fetchp")) {
        outn = (size_t)ev->a[1]; out = outn ? xblock(outn) : xblock0();
        if (outn) memset(out, 0x55, outn);
        rc = persistent_fetch_part(out, &st, szarg(ev->a[0]), outn);
    } else if (ev_is(ev, "reset")) {
        rc = persistent_reset(&st, (unsigned char)ev->a[0]); writes_medium = 1;
    } else { fprintf(stderr, "persist: unknown op %s\n", ev->name); exit(2); }
    memset(&arm, 0, sizeof arm);
    obs(ev, rc); obs(ev, oob); obs(ev, struck);
    if (writes_medium) image(ev);
    if (out) {
        if (rc == 0) for (size_t i = 0; i < outn; i++) obs(ev, out[i]);
        if (outn) xfree(out); else xfree0(out);
    }
}
