/* Adapter: the bit macros of ufw/bit-operations.h (extra X12, spec/BitOps.tla).  Words travel as four 16-bit numbers,
 * most significant first.  fam 0: unsigned (BIT...), 1: long (BITL...), 2: long long (BITLL...). */
#include <stdio.h>
#include <stdlib.h>
#include <string.h>
#include <stdint.h>

#include <ufw/bit-operations.h>

#include "driver.h"

const char *adapter_name = "bitops";

static uint64_t q(const long long *a) { return ((uint64_t)a[0] << 48) | ((uint64_t)a[1] << 32) | ((uint64_t)a[2] << 16) | (uint64_t)a[3]; }
static void putq(Ev *ev, uint64_t v) { for (int i = 3; i >= 0; i--) obs(ev, (long long)((v >> (16 * i)) & 0xffff)); }

void adapter_exec(Ev *ev)
{
    if (ev_is(ev, "@")) return;
    if (ev_is(ev, "bit")) {
        int fam = (int)ev->a[0]; unsigned n = (unsigned)ev->a[1];
        putq(ev, fam == 0 ? (uint64_t)BIT(n) : fam == 1 ? (uint64_t)BITL(n) : (uint64_t)BITLL(n));
    } else if (ev_is(ev, "ones")) {
        int fam = (int)ev->a[0]; unsigned n = (unsigned)ev->a[1], o = (unsigned)ev->a[2];
        putq(ev, fam == 0 ? (uint64_t)BIT_ONES(n, o) : fam == 1 ? (uint64_t)BITL_ONES(n, o) : (uint64_t)BITLL_ONES(n, o));
    } else if (ev_is(ev, "get")) {
        int fam = (int)ev->a[0]; unsigned n = (unsigned)ev->a[1], o = (unsigned)ev->a[2];
        uint64_t c = q(ev->a + 3);
        unsigned int cu = (unsigned int)c; unsigned long cl = (unsigned long)c; unsigned long long cll = c;
        putq(ev, fam == 0 ? (uint64_t)BIT_GET(cu, n, o) : fam == 1 ? (uint64_t)BITL_GET(cl, n, o) : (uint64_t)BITLL_GET(cll, n, o));
    } else if (ev_is(ev, "maskword")) {
        int fam = (int)ev->a[0]; unsigned n = (unsigned)ev->a[1];
        putq(ev, fam == 0 ? (uint64_t)BIT_MASK(n) : fam == 1 ? (uint64_t)BITL_MASK(n) : (uint64_t)BITLL_MASK(n));
        obs(ev, fam == 0 ? (long long)BIT_WORD(n) : fam == 1 ? (long long)BITL_WORD(n) : (long long)BITLL_WORD(n));
    } else if (ev_is(ev, "isset") || ev_is(ev, "issetany")) {
        uint64_t c = q(ev->a), m = q(ev->a + 4);
        obs(ev, ev_is(ev, "isset") ? (BIT_ISSET(c, m) ? 1 : 0) : (BIT_ISSET_ANY(c, m) ? 1 : 0));
    } else if (ev_is(ev, "set") || ev_is(ev, "clear") || ev_is(ev, "toggle")) {
        uint64_t c = q(ev->a), m = q(ev->a + 4), c2 = c;
        uint32_t c32 = (uint32_t)c; uint16_t c16 = (uint16_t)c; uint8_t c8 = (uint8_t)c;
        if (ev_is(ev, "set")) { BIT_SET(c2, m); BIT_SET(c32, (uint32_t)m); BIT_SET(c16, (uint16_t)m); BIT_SET(c8, (uint8_t)m); }
        else if (ev_is(ev, "clear")) { BIT_CLEAR(c2, m); BIT_CLEAR(c32, (uint32_t)m); BIT_CLEAR(c16, (uint16_t)m); BIT_CLEAR(c8, (uint8_t)m); }
        else { BIT_TOGGLE(c2, m); BIT_TOGGLE(c32, (uint32_t)m); BIT_TOGGLE(c16, (uint16_t)m); BIT_TOGGLE(c8, (uint8_t)m); }
        putq(ev, c2);
        /* narrower containers see the low part of the same story */
        if (c32 != (uint32_t)c2 || c16 != (uint16_t)c2 || c8 != (uint8_t)c2) obs(ev, -777);
    } else if (ev_is(ev, "seto")) {
        uint64_t c = q(ev->a), m = q(ev->a + 4); unsigned o = (unsigned)ev->a[8];
        BIT_SETo(c, m, o);
        putq(ev, c);
    } else {
        fprintf(stderr, "bitops: unknown op %s\n", ev->name);
        exit(2);
    }
}
