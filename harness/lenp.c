/* Adapter: ufw length-prefix framing (C13).  Event vocabulary: spec/LengthPrefix.tla. */
#include <errno.h>
#include <limits.h>
#include <stdio.h>
#include <stdlib.h>
#include <string.h>
#include <stdint.h>

#include <ufw/byte-buffer.h>
#include <ufw/endpoints.h>
#include <ufw/length-prefix.h>

#include "driver.h"

const char *adapter_name = "lenp";

static void lenp_nested(void);
static unsigned char sinkrec[1 << 17];
static size_t sinkn;
static ssize_t snk_chunk(void *drv, const void *buf, size_t n)
{
    (void)drv;
    lenp_nested();
    if (sinkn + n > sizeof sinkrec) return -ENOMEM;
    memcpy(sinkrec + sinkn, buf, n);
    sinkn += n;
    return (ssize_t)n;
}
typedef struct { const unsigned char *p; size_t n, pos, frag; } Src;
/* drivers that frame something else while they are being used (every second call): the framing functions are expected to be re-entrant */
static int nest_depth;
static unsigned nest_calls;
static ssize_t void_chunk2(void *drv, const void *buf, size_t n) { (void)drv; (void)buf; return (ssize_t)n; }
static void lenp_nested(void)
{
    if (nest_depth || (nest_calls++ % 2)) return;
    static unsigned char pay[5] = { 9, 8, 7, 6, 5 };
    Sink v = CHUNK_SINK_INIT(void_chunk2, NULL);
    LengthPrefixBuffer lpb;
    nest_depth++;
    (void)flenp_memory_to_sink(LENP_VARIABLE, &v, pay, sizeof pay);
    (void)flenp_memory_to_sink(LENP_BE_32BIT, &v, pay, sizeof pay);
    (void)flenp_memory_encode(LENP_LE_16BIT, &lpb, pay, sizeof pay);
    {
        /* ... and the buffer and chunk-list entry points, with another kind and another length than the outer call is likely to have */
        unsigned char m1[7] = { 1, 2, 3, 4, 5, 6, 7 }, m2[300];
        memset(m2, 9, sizeof m2);
        ByteBuffer b1 = BYTE_BUFFER_INIT(m1, sizeof m1, sizeof m1, 2), b2 = BYTE_BUFFER_INIT(m2, sizeof m2, sizeof m2, 0);
        ByteBuffer cs2[2] = { b1, b2 };
        ByteChunks bc = { 2, 0, cs2 };
        LengthPrefixChunks lpc;
        memset(&lpc, 0xA5, sizeof lpc);
        lpc.payload.chunks = 2; lpc.payload.active = 0; lpc.payload.chunk = cs2;
        (void)flenp_chunks_to_sink(LENP_LE_32BIT, &v, &bc);
        (void)flenp_chunks_to_sink(LENP_VARIABLE, &v, &bc);
        (void)flenp_chunks_use(LENP_BE_16BIT, &lpc);
        (void)flenp_buffer_to_sink(LENP_LE_16BIT, &v, &b2);
        (void)flenp_buffer_encode(LENP_BE_32BIT, &lpb, &b1);
    }
    nest_depth--;
}
static ssize_t src_chunk(void *drv, void *buf, size_t n)
{
    Src *s = drv;
    lenp_nested();
    if (s->pos >= s->n) return -ENODATA;
    size_t d = n;
    if (d > s->frag) d = s->frag;
    if (d > s->n - s->pos) d = s->n - s->pos;
    memcpy(buf, s->p + s->pos, d);
    s->pos += d;
    return (ssize_t)d;
}
ssize_t lenp_acc_sink(void *drv, const void *buf, size_t n) { (void)buf; *(unsigned long long *)drv += n; return (ssize_t)n; }
static long long rcc(long long rc) { return rc >= 0 ? rc : (rc == -ENOMEM ? -12 : -1); }
static unsigned char tok(size_t i) { return (unsigned char)((i + 1) % 256); }

/* a byte buffer [size used off] over an exact-size, position-coded block */
static unsigned char *mkbuf(ByteBuffer *b, const long long *a)
{
    size_t size = (size_t)a[0];
    unsigned char *blk = xblock(size);
    for (size_t i = 0; i < size; i++) blk[i] = tok(i);
    b->data = blk; b->size = size; b->used = (size_t)a[1]; b->offset = (size_t)a[2];
    return blk;
}
static void put_prefix(Ev *ev, const ByteBuffer *p)
{
    for (size_t i = p->offset; i < p->used && i < 10; i++) obs(ev, p->data[i]);
}
static void put_sink(Ev *ev) { for (size_t i = 0; i < sinkn; i++) obs(ev, sinkrec[i]); }

/* for the prefix of unbounded width every second call goes through the lenp_* front ends of the header instead of flenp_*(LENP_VARIABLE, ...) */
static LengthPrefixKind cur_kind;
static unsigned wcount;
static int usew(void) { return cur_kind == LENP_VARIABLE && (wcount++ & 1); }

void adapter_exec(Ev *ev)
{
    if (ev_is(ev, "@")) return;
    LengthPrefixKind k = (LengthPrefixKind)ev->a[0];
    cur_kind = k;
    Sink sink; FlavSink fk;
    flav_sink_init(&sink, &fk, snk_chunk, NULL, harness_flavour);
    sinkn = 0;
    if (ev_is(ev, "menc")) {
        uint64_t n = get_w64(ev->a + 1);
        unsigned char one = 0;
        LengthPrefixBuffer lpb;
        memset(&lpb, 0xA5, sizeof lpb);       /* the encoders must set every field they hand back */
        int rc = (usew() ? lenp_memory_encode(&lpb, &one, (size_t)n) : flenp_memory_encode(k, &lpb, &one, (size_t)n));
        obs(ev, rcc(rc));
        if (rc >= 0) {
            if ((n >> 32) != 0) obs(ev, -8); else put_prefix(ev, &lpb.prefix);
            obs(ev, -7);
            put_w64(ev, lpb.payload.data == &one ? (uint64_t)lpb.payload.used : ~(uint64_t)0);
        }
        return;
    }
    if (ev_is(ev, "benc") || ev_is(ev, "bencn")) {
        ByteBuffer b; unsigned char *blk = mkbuf(&b, ev->a + 1);
        LengthPrefixBuffer lpb;
        memset(&lpb, 0xA5, sizeof lpb);       /* the encoders must set every field they hand back */
        int rc = ev_is(ev, "benc") ? (usew() ? lenp_buffer_encode(&lpb, &b) : flenp_buffer_encode(k, &lpb, &b))
                                   : (usew() ? lenp_buffer_encode_n(&lpb, &b, (size_t)ev->a[4]) : flenp_buffer_encode_n(k, &lpb, &b, (size_t)ev->a[4]));
        obs(ev, rcc(rc));
        if (rc >= 0) {
            obs(ev, (long long)b.offset); obs(ev, (long long)b.used); obs(ev, -7);
            put_prefix(ev, &lpb.prefix); obs(ev, -7);
            obs(ev, (long long)(lpb.payload.data - blk)); obs(ev, (long long)(lpb.payload.used - lpb.payload.offset));
        } else { obs(ev, (long long)b.offset); obs(ev, (long long)b.used); }
        xfree(blk);
        return;
    }
    if (ev_is(ev, "cuse") || ev_is(ev, "csink")) {
        size_t act = (size_t)ev->a[1];
        size_t nc = (size_t)ev->a[2];
        ByteBuffer *cs = calloc(nc ? nc : 1, sizeof *cs);
        unsigned char **blks = calloc(nc ? nc : 1, sizeof *blks);
        size_t base = 0;
        for (size_t i = 0; i < nc; i++) {
            blks[i] = mkbuf(&cs[i], ev->a + 3 + 3 * i);
            (void)base;
        }
        if (ev_is(ev, "cuse")) {
            LengthPrefixChunks lpc;
            memset(&lpc, 0xA5, sizeof lpc);
            lpc.payload.chunks = nc; lpc.payload.active = act; lpc.payload.chunk = cs;
            int rc = (usew() ? lenp_chunks_use(&lpc) : flenp_chunks_use(k, &lpc));
            obs(ev, rcc(rc));
            if (rc >= 0) { obs(ev, -7); put_prefix(ev, &lpc.prefix); }
        } else {
            ByteChunks bc = { nc, act, cs };
            ssize_t rc = (usew() ? lenp_chunks_to_sink(&sink, &bc) : flenp_chunks_to_sink(k, &sink, &bc));
            obs(ev, rcc(rc)); obs(ev, -7);
            if (rc >= 0) put_sink(ev);
        }
        for (size_t i = 0; i < nc; i++) xfree(blks[i]);
        free(cs); free(blks);
        return;
    }
    if (ev_is(ev, "msinkhuge")) {
        /* msinkhuge k d: framing SSIZE_MAX - d octets "from memory" into a sink that only accounts for what it is offered (no memory
         * behind the pointer).  Observation: -1 <octets offered to the sink>  when refused,  0 <SSIZE_MAX - total> <offered == total> else */
        static unsigned long long offered;
        struct acc { int dummy; };
        offered = 0;
        Sink ak;
        extern ssize_t lenp_acc_sink(void *, const void *, size_t);
        chunk_sink_init(&ak, lenp_acc_sink, &offered);
        unsigned char *one = xblock(1);
        size_t n = (size_t)SSIZE_MAX - (size_t)ev->a[1];
        ssize_t rc = (usew() ? lenp_memory_to_sink(&ak, one, n) : flenp_memory_to_sink(k, &ak, one, n));
        if (rc < 0) { obs(ev, -1); obs(ev, (long long)offered); }
        else { obs(ev, 0); obs(ev, (long long)((unsigned long long)SSIZE_MAX - (unsigned long long)rc)); obs(ev, offered == (unsigned long long)rc); }
        xfree(one);
        return;
    }
    if (ev_is(ev, "msink")) {
        size_t n = (size_t)ev->a[1];
        unsigned char *blk = xblock(n);
        for (size_t i = 0; i < n; i++) blk[i] = tok(i);
        ssize_t rc = (usew() ? lenp_memory_to_sink(&sink, blk, n) : flenp_memory_to_sink(k, &sink, blk, n));
        obs(ev, rcc(rc)); obs(ev, -7);
        if (rc >= 0) put_sink(ev);
        xfree(blk);
        return;
    }
    if (ev_is(ev, "bsink") || ev_is(ev, "bsinkn")) {
        ByteBuffer b; unsigned char *blk = mkbuf(&b, ev->a + 1);
        ByteBuffer before = b;
        ssize_t rc = ev_is(ev, "bsink") ? (usew() ? lenp_buffer_to_sink(&sink, &b) : flenp_buffer_to_sink(k, &sink, &b))
                                        : (usew() ? lenp_buffer_to_sink_n(&sink, &b, (size_t)ev->a[4]) : flenp_buffer_to_sink_n(k, &sink, &b, (size_t)ev->a[4]));
        obs(ev, rcc(rc));
        if (rc >= 0) { obs(ev, (long long)b.offset); obs(ev, (long long)b.used); }
        else { obs(ev, (long long)before.offset); obs(ev, (long long)before.used); } /* refusal: buffer position not compared */
        obs(ev, -7);
        if (rc >= 0) put_sink(ev);
        xfree(blk);
        return;
    }
    if (ev_is(ev, "mdec")) {
        size_t cap = (size_t)ev->a[1], frag = (size_t)ev->a[2], ns = (size_t)ev->a[3];
        unsigned char *st = ns ? xblock(ns) : xblock0();
        for (size_t i = 0; i < ns; i++) st[i] = (unsigned char)ev->a[4 + i];
        Src s = { st, ns, 0, frag };
        Source source = CHUNK_SOURCE_INIT(src_chunk, &s);
        unsigned char *dst = cap ? xblock(cap) : xblock0();
        if (cap) memset(dst, 170, cap);
        ssize_t rc = (usew() ? lenp_memory_from_source(&source, dst, cap) : flenp_memory_from_source(k, &source, dst, cap));
        obs(ev, rcc(rc));
        if (rc >= 0) { obs(ev, (long long)s.pos); obs(ev, -7); for (size_t i = 0; i < cap; i++) obs(ev, dst[i]); }
        else obs(ev, -7);
        if (cap) xfree(dst); else xfree0(dst);
        if (ns) xfree(st); else xfree0(st);
        return;
    }
    if (ev_is(ev, "bdec")) {
        size_t size = (size_t)ev->a[1], used = (size_t)ev->a[2], off = (size_t)ev->a[3];
        size_t frag = (size_t)ev->a[4], ns = (size_t)ev->a[5];
        unsigned char *st = ns ? xblock(ns) : xblock0();
        for (size_t i = 0; i < ns; i++) st[i] = (unsigned char)ev->a[6 + i];
        Src s = { st, ns, 0, frag };
        Source source = CHUNK_SOURCE_INIT(src_chunk, &s);
        unsigned char *blk = xblock(size);
        memset(blk, 170, size);
        memset(blk, 171, used);
        ByteBuffer b = BYTE_BUFFER_INIT(blk, size, used, off);
        ssize_t rc = (usew() ? lenp_buffer_from_source(&source, &b) : flenp_buffer_from_source(k, &source, &b));
        obs(ev, rcc(rc));
        if (rc >= 0) {
            obs(ev, (long long)s.pos); obs(ev, (long long)b.used); obs(ev, (long long)b.offset); obs(ev, -7);
            for (size_t i = 0; i < size; i++) obs(ev, blk[i]);
        } else {
            /* refused: the buffer's bookkeeping and its filled region are as they were (R5) */
            long long dirty = 0;
            for (size_t i = 0; i < used && i < size; i++) if (blk[i] != 171) dirty++;
            obs(ev, (long long)b.used); obs(ev, (long long)b.offset); obs(ev, dirty); obs(ev, -7);
        }
        xfree(blk);
        if (ns) xfree(st); else xfree0(st);
        return;
    }
    if (ev_is(ev, "sdec")) {
        size_t frag = (size_t)ev->a[1], ns = (size_t)ev->a[2];
        unsigned char *st = ns ? xblock(ns) : xblock0();
        for (size_t i = 0; i < ns; i++) st[i] = (unsigned char)ev->a[3 + i];
        Src s = { st, ns, 0, frag };
        Source source = CHUNK_SOURCE_INIT(src_chunk, &s);
        int at = ev->no; long long frames = 0;
        obs(ev, 0);
        while (s.pos < s.n && frames < 64) {
            sinkn = 0;
            ssize_t rc = (usew() ? lenp_decode_source_to_sink(&source, &sink) : flenp_decode_source_to_sink(k, &source, &sink));
            frames++;
            if (rc < 0) { obs(ev, -1); obs(ev, 0); break; }
            obs(ev, rc); obs(ev, (long long)sinkn); put_sink(ev);
        }
        ev->o[at] = frames;
        if (ns) xfree(st); else xfree0(st);
        return;
    }
    fprintf(stderr, "lenp: unknown op %s\n", ev->name);
    exit(2);
}
