/* Adapter: ufw register protocol (C06-C09).  Vocabulary: spec/RegpTrace.tla.
 *   sizeof                       | sizeof(RPFrame)
 *   emit kind tr mem16 seq0 ...  | rc seq_after <wire> -7 peer_rc peer_errid [type opts meta seq ahi alo bhi blo <payload>]
 *        kind 1 read8  2 read16  3 write8  4 write16      : ahi alo n <payload octets>
 *             5 ack                                      : reqtype seq ahi alo n <payload octets>
 *             10+code error response                     : reqtype seq ahi alo vhi vlo
 *             30 meta                                    : meta
 *   rx mustfail tr mem16 cap allocfail verdict vhi vlo nd <data> nw <wire>     (mustfail: for the spec only)
 *                                | rc errid allocs frees badfree live ncalls {kind ahi alo n <payload>} -7 <reply wire>
 */
#include <errno.h>
#include <stdio.h>
#include <stdlib.h>
#include <string.h>
#include <stdint.h>

#include <ufw/allocator.h>
#include <ufw/endpoints.h>
#include <ufw/register-protocol.h>

#include "driver.h"

const char *adapter_name = "regp";

/* ---- recording sink / array source */
static unsigned char out[1 << 19];
static size_t outn;
static long snk_calls, snk_fail_at;
static unsigned emitf_odd;     /* emitf: the snk_fail_at-th call of the sink is refused with EIO */
/* A sink (a driver behind it) may itself talk the protocol on another instance while a frame is on its way - say, to log what goes
 * out: once per emission, at its first, second, third or fourth call, the recording sink sends a request, an error response with a
 * payload and an acknowledgement through a second instance into a sink that throws everything away. */
static void sink_nested(void);
static long snk_seen;
static unsigned emit_no;
static int in_sink_nested;
static ssize_t snk(void *d, const void *b, size_t n)
{
    (void)d;
    if (!in_sink_nested && snk_seen++ == (long)(emit_no % 4)) { in_sink_nested = 1; sink_nested(); in_sink_nested = 0; }
    if (snk_fail_at && ++snk_calls == snk_fail_at) return -EIO;
    if (outn + n > sizeof out) return -ENOMEM;
    memcpy(out + outn, b, n); outn += n;
    return (ssize_t)n;
}
typedef struct { const unsigned char *p; size_t n, pos; } Arr;
static int src_octet(void *d, void *o)
{
    Arr *a = d;
    if (a->pos >= a->n) return -ENODATA;
    *(unsigned char *)o = a->p[a->pos++];
    return 1;
}

/* source flavours: 0 octet-style; 1 chunk-style delivering all that is asked for; 2 chunk-style delivering at most three
 * octets per call; 3 chunk-style offering a 24-octet scratch buffer through the getbuffer extension (as a socket-backed
 * endpoint would).  The protocol's behaviour must not depend on it. */
static int srcflavour;
static ssize_t src_chunk(void *d, void *o, size_t n)
{
    Arr *a = d;
    if (a->pos >= a->n) return -ENODATA;
    size_t m = a->n - a->pos;
    if (m > n) m = n;
    if (srcflavour == 2 && m > 3) m = 3;
    memcpy(o, a->p + a->pos, m);
    a->pos += m;
    return (ssize_t)m;
}
static unsigned char *scratch;
static ByteBuffer src_getbuffer(Source *s)
{
    (void)s;
    ByteBuffer b;
    if (!scratch) scratch = xblock(24);
    byte_buffer_use(&b, scratch, 24);
    return b;
}

/* ---- allocator with ledger: exact-size heap blocks */
#define MAXLIVE 16
static struct { void *live[MAXLIVE]; long allocs, frees, badfree; int failnext, slab; size_t blocksize; } L;
static int l_alloc(void *drv, void **m, size_t n)
{
    (void)drv;
    if (L.failnext) { *m = NULL; return -ENOMEM; }
    *m = xblock(n);
    memset(*m, 0xd7, n);
    L.allocs++;
    for (int i = 0; i < MAXLIVE; i++) if (!L.live[i]) { L.live[i] = *m; break; }
    return 0;
}
static void l_free(void *drv, void *m)
{
    (void)drv;
    for (int i = 0; i < MAXLIVE; i++) if (L.live[i] == m && m) { L.live[i] = NULL; L.frees++; xfree(m); return; }
    L.badfree++;
}
static int l_slab(void *drv, void **m) { return l_alloc(drv, m, L.blocksize); }
static long l_live(void) { long k = 0; for (int i = 0; i < MAXLIVE; i++) if (L.live[i]) k++; return k; }

/* ---- backend */
static struct { int ws; long long verdict; uint32_t vaddr; const long long *data; int nd;
                int ncalls; struct { int kind; uint32_t addr; size_t n; unsigned char pl[4096]; size_t npl; } c[4]; } B;
/* A memory backend may itself talk the protocol on another instance (say, forward or log the access): every second backend call
 * first sends a request and a response through a second instance into a sink that throws everything away. */
static ssize_t void_sink(void *d, const void *b, size_t n) { (void)d; (void)b; return (ssize_t)n; }
static unsigned nest_calls;
static void backend_nested(void)
{
    if ((nest_calls++ % 2) != 0) return;
    static RegP aux;
    Arr none3 = { NULL, 0, 0 };
    Source s3 = OCTET_SOURCE_INIT(src_octet, &none3);
    Sink k3 = CHUNK_SINK_INIT(void_sink, NULL);
    regp_init(&aux);
    regp_use_channel(&aux, (nest_calls & 2) ? RP_EP_SERIAL : RP_EP_TCP, s3, k3);
    static const uint16_t w[3] = { 0xC0DB, 0xDCDD, 7 };
    RPFrame f; memset(&f, 0, sizeof f);
    f.header.type = RP_FRAME_READ_REQUEST; f.header.sequence = 0xC0DB; f.header.address = 0xDBC0DCDD;
    (void)regp_req_write16(&aux, 0xC0DBDCDDu, 3, w);
    (void)regp_resp_erange(&aux, &f, 0xDDDCDBC0u);
    (void)regp_resp_ack(&aux, &f, w, 3);
}
static void sink_nested(void)
{
    static RegP aux2;
    Arr none3 = { NULL, 0, 0 };
    Source s3 = OCTET_SOURCE_INIT(src_octet, &none3);
    Sink k3 = CHUNK_SINK_INIT(void_sink, NULL);
    regp_init(&aux2);
    regp_use_channel(&aux2, (emit_no & 4) ? RP_EP_SERIAL : RP_EP_TCP, s3, k3);
    static const uint16_t w[3] = { 0xDBC0, 0xDDDC, 9 };
    RPFrame f; memset(&f, 0, sizeof f);
    f.header.type = RP_FRAME_WRITE_REQUEST; f.header.sequence = 0xDCC0; f.header.address = 0xC0DDDBDCu;
    (void)regp_req_write16(&aux2, 0xDBDCC0DDu, 3, w);
    (void)regp_resp_eunmapped(&aux2, &f, 0xC0DBDDDCu);
    (void)regp_resp_etxoverflow(&aux2, &f, 0xDCDDC0DBu);
    (void)regp_resp_ack(&aux2, &f, w, 3);
}
static RPBlockAccess b_read(uint32_t a, size_t n, void *buf)
{
    RPBlockAccess r = { (RPResponse)B.verdict, B.vaddr };
    backend_nested();
    if (B.ncalls < 4) { B.c[B.ncalls].kind = 0; B.c[B.ncalls].addr = a; B.c[B.ncalls].n = n; B.c[B.ncalls].npl = 0; }
    B.ncalls++;
    /* the backend fills the whole block it was asked for (ASan watches the frame block) */
    unsigned char *o = buf;
    for (size_t i = 0; i < n * (size_t)B.ws; i++) o[i] = (unsigned char)(i < (size_t)B.nd ? B.data[i] : 0xe1);
    return r;
}
static RPBlockAccess b_write(uint32_t a, size_t n, const void *buf)
{
    RPBlockAccess r = { (RPResponse)B.verdict, B.vaddr };
    backend_nested();
    if (B.ncalls < 4) {
        B.c[B.ncalls].kind = 1; B.c[B.ncalls].addr = a; B.c[B.ncalls].n = n;
        size_t k = n * (size_t)B.ws; if (k > sizeof B.c[0].pl) k = sizeof B.c[0].pl;
        memcpy(B.c[B.ncalls].pl, buf, k);      /* reads the announced block: ASan catches a short payload */
        B.c[B.ncalls].npl = k;
    }
    B.ncalls++;
    return r;
}
static RPBlockAccess r16(uint32_t a, size_t n, uint16_t *b) { return b_read(a, n, b); }
static RPBlockAccess w16(uint32_t a, size_t n, const uint16_t *b) { return b_write(a, n, b); }
static RPBlockAccess r8(uint32_t a, size_t n, uint8_t *b) { return b_read(a, n, b); }
static RPBlockAccess w8(uint32_t a, size_t n, const uint8_t *b) { return b_write(a, n, b); }

static BlockAllocator BA;
static void setup(RegP *p, int tr, int mem16, size_t blocksize, Arr *a)
{
    memset(p, 0xA5, sizeof *p);          /* initialisation must not rely on a zeroed instance */
    static unsigned inits;
    if (inits++ % 3 == 2) { RegP fresh = RP_NEW_INSTANCE; *p = fresh; }      /* every third instance is set up with the public static initialiser */
    else regp_init(p);
    if (mem16 == 2) { /* nothing attached: the default after init */ }
    else if (mem16) regp_use_memory16(p, r16, w16); else regp_use_memory8(p, r8, w8);
    B.ws = mem16 ? 2 : 1;
    Source s = OCTET_SOURCE_INIT(src_octet, a);
    if (srcflavour) { Source c = CHUNK_SOURCE_INIT(src_chunk, a); s = c; }
    if (srcflavour == 3) s.ext.getbuffer = src_getbuffer;
    /* the channel's sink in three styles (!flav): whole chunks, one octet per call, octet-style */
    static FlavSink fks[4]; static unsigned fki;
    Sink k;
    flav_sink_init(&k, &fks[fki++ % 4], snk, NULL, harness_flavour);
    regp_use_channel(p, tr == 0 ? RP_EP_SERIAL : RP_EP_TCP, s, k);
    L.blocksize = blocksize;
    if (L.slab) { BlockAllocator ba = MAKE_SLAB_BLOCKALLOC(NULL, l_slab, l_free, blocksize); BA = ba; }
    else { BlockAllocator ba = MAKE_GENERIC_BLOCKALLOC(NULL, l_alloc, l_free, blocksize); BA = ba; }
    regp_use_allocator(p, &BA);
}
static void reset_ledger(void) { for (int i = 0; i < MAXLIVE; i++) if (L.live[i]) { xfree(L.live[i]); L.live[i] = NULL; } memset(&L, 0, sizeof L); }

void adapter_exec(Ev *ev)
{
    snk_seen = 0; emit_no++;            /* every event: the recording sink re-enters the library once, at one of its first four calls */
    if (ev_is(ev, "@")) { reset_ledger(); return; }
    if (ev_is(ev, "sizeof")) { obs(ev, (long long)sizeof(RPFrame)); return; }
    static RegP p, peer;
    Arr none = { NULL, 0, 0 };
    int emitf = ev_is(ev, "emitf");
    snk_fail_at = 0; snk_calls = 0;
    if (emitf) {
        /* emitf failat <emit arguments>: the same emission into a sink that refuses its failat-th call, followed by a plain read
         * request into a working sink.  Observation: rc1 seq1 rc2 seq2 n1 <the n1 octets the sink accepted during the first> */
        snk_fail_at = (long)ev->a[0];
    }
    if (emitf || ev_is(ev, "emit")) {
        const long long *A = ev->a + (emitf ? 1 : 0);
        int NA = ev->na - (emitf ? 1 : 0);
        int kind = (int)A[0], tr = (int)A[1], mem16 = (int)A[2];
        reset_ledger(); memset(&B, 0, sizeof B);
        outn = 0;
        srcflavour = 0;
        setup(&p, tr, mem16, 4096, &none);
        p.session.sequence = (uint16_t)A[3];
        const long long *a = A + 4;
        int na = NA - 4;
        int rc = -9999;
        unsigned char *pl = NULL; size_t npl = 0;
        RPFrame f; memset(&f, 0, sizeof f);
        if (kind >= 1 && kind <= 4) {
            uint32_t addr = get_w32(a);
            size_t n = (size_t)a[2];
            npl = (size_t)(na - 3);
            pl = npl ? xblock(npl) : xblock0();
            for (size_t i = 0; i < npl; i++) pl[i] = (unsigned char)a[3 + i];
            if (kind == 1) rc = regp_req_read8(&p, addr, n);
            else if (kind == 2) rc = regp_req_read16(&p, addr, n);
            else if (kind == 3) rc = regp_req_write8(&p, addr, n, pl);
            else rc = regp_req_write16(&p, addr, n, (const uint16_t *)(void *)pl);
        } else {
            if (kind != 30) { f.header.type = (RPFrameType)a[0]; f.header.sequence = (uint16_t)a[1]; f.header.address = get_w32(a + 2); }
            if (kind == 5) {
                size_t n = (size_t)a[4];
                npl = (size_t)(na - 5);
                pl = npl ? xblock(npl) : xblock0();
                for (size_t i = 0; i < npl; i++) pl[i] = (unsigned char)a[5 + i];
                rc = regp_resp_ack(&p, &f, npl ? pl : NULL, n);
            } else if (kind == 30) {
                rc = regp_resp_meta(&p, (uint_least8_t)a[0]);
            } else {
                uint32_t val = na >= 6 ? get_w32(a + 4) : 0;
                switch (kind - 10) {
                case RP_RESP_EWORDSIZE: rc = regp_resp_ewordsize(&p, &f); break;
                case RP_RESP_EPAYLOADCRC: rc = regp_resp_epayloadcrc(&p, &f); break;
                case RP_RESP_EPAYLOADSIZE: rc = regp_resp_epayloadsize(&p, &f); break;
                case RP_RESP_ERXOVERFLOW: rc = regp_resp_erxoverflow(&p, &f, val); break;
                case RP_RESP_ETXOVERFLOW: rc = regp_resp_etxoverflow(&p, &f, val); break;
                case RP_RESP_EBUSY: rc = regp_resp_ebusy(&p, &f); break;
                case RP_RESP_EUNMAPPED: rc = regp_resp_eunmapped(&p, &f, val); break;
                case RP_RESP_EACCESS: rc = regp_resp_eaccess(&p, &f, val); break;
                case RP_RESP_ERANGE: rc = regp_resp_erange(&p, &f, val); break;
                case RP_RESP_EINVALID: rc = regp_resp_einvalid(&p, &f, val); break;
                case RP_RESP_EIO: rc = regp_resp_eio(&p, &f); break;
                default: fprintf(stderr, "regp: bad emit kind %d\n", kind); exit(2);
                }
            }
        }
        if (emitf) {
            size_t n1 = outn;
            obs(ev, rc < 0 ? -1 : rc); obs(ev, p.session.sequence);
            snk_fail_at = 0;
            {
                /* the session goes on over a channel attached anew - for every second case over the other kind of transport;
                 * its sequence numbers carry on */
                Arr none2 = { NULL, 0, 0 };
                Source s2 = OCTET_SOURCE_INIT(src_octet, &none2);
                Sink k2 = CHUNK_SINK_INIT(snk, NULL);
                int other = (emitf_odd++ % 2) == 0;
                regp_use_channel(&p, (tr == 0) != other ? RP_EP_SERIAL : RP_EP_TCP, s2, k2);
            }
            int rc2 = regp_req_read8(&p, 0, 1);
            obs(ev, rc2 < 0 ? -1 : rc2); obs(ev, p.session.sequence);
            obs(ev, (long long)n1);
            for (size_t i = 0; i < n1; i++) obs(ev, out[i]);
            if (pl) { if (npl) xfree(pl); else xfree0(pl); }
            return;
        }
        obs(ev, rc); obs(ev, p.session.sequence);
        for (size_t i = 0; i < outn; i++) obs(ev, out[i]);
        obs(ev, -7);
        /* the library's own receiver on a peer instance (same transport; peer memory word size irrelevant for recv) */
        static unsigned char wire[1 << 19];
        size_t nw = outn;
        memcpy(wire, out, nw);
        Arr wa = { wire, nw, 0 };
        outn = 0;
        setup(&peer, tr, mem16, nw + 4096, &wa);        /* the peer's block holds whatever was emitted */
        RPMaybeFrame mf; memset(&mf, 0, sizeof mf);
        int prc = regp_recv(&peer, &mf);
        obs(ev, prc < 0 ? -1 : 0); obs(ev, mf.error.id);
        if (prc >= 0 && mf.frame != NULL && mf.error.id == 0) {
            RPFrame *g = mf.frame;
            obs(ev, g->header.type); obs(ev, g->header.options); obs(ev, (long long)g->header.meta.raw); obs(ev, g->header.sequence);
            put_w32(ev, g->header.address); put_w32(ev, g->header.blocksize);
            for (size_t i = 0; i < g->payload.size; i++) obs(ev, ((unsigned char *)g->payload.data)[i]);
        }
        regp_free(&peer, mf.frame);
        if (pl) { if (npl) xfree(pl); else xfree0(pl); }
        return;
    }
    /* persistent session: rxopen tr mem16 cap nw <stream>;  then  rxn <same arguments as rx> for each framed unit:
     * the unit named in the event is what the cycle is expected to consume; the first observation is the number of
     * octets the cycle actually took from the stream */
    static RegP sp; static Arr sarr; static unsigned char *sstream = NULL; static size_t sstream_n = 0;
    if (ev_is(ev, "rxopen")) {
        reset_ledger(); memset(&B, 0, sizeof B);
        if (sstream) { xfree(sstream); sstream = NULL; }
        sstream_n = (size_t)ev->a[3];
        sstream = xblock(sstream_n ? sstream_n : 1);
        for (size_t i = 0; i < sstream_n; i++) sstream[i] = (unsigned char)ev->a[4 + i];
        sarr.p = sstream; sarr.n = sstream_n; sarr.pos = 0;
        srcflavour = ((int)ev->a[0] >> 2) & 3;
        setup(&sp, (int)ev->a[0] & 3, (int)ev->a[1], (size_t)ev->a[2] + sizeof(RPFrame), &sarr);
        obs(ev, 0);
        return;
    }
    if (ev_is(ev, "rxn")) {
        int mem16 = (int)ev->a[2];
        memset(&B, 0, sizeof B);
        L.allocs = L.frees = L.badfree = 0;
        L.failnext = (int)ev->a[4] & 1;
        B.verdict = ev->a[5]; B.vaddr = get_w32(ev->a + 6);
        B.nd = (int)ev->a[8]; B.data = ev->a + 9;
        B.ws = mem16 ? 2 : 1;
        outn = 0;
        size_t before = sarr.pos;
        RPMaybeFrame mf; memset(&mf, 0, sizeof mf);
        int rc = regp_recv(&sp, &mf);
        long long errid = mf.error.id;
        if (rc >= 0) (void)regp_process(&sp, &mf);
        regp_free(&sp, mf.frame);
        obs(ev, (long long)(sarr.pos - before));
        obs(ev, rc < 0 ? -1 : 0); obs(ev, rc < 0 ? 0 : errid);
        obs(ev, L.allocs); obs(ev, L.frees); obs(ev, L.badfree); obs(ev, l_live());
        obs(ev, B.ncalls);
        for (int i = 0; i < B.ncalls && i < 4; i++) {
            obs(ev, B.c[i].kind); put_w32(ev, B.c[i].addr); obs(ev, (long long)B.c[i].n);
            for (size_t k = 0; k < B.c[i].npl; k++) obs(ev, B.c[i].pl[k]);
        }
        obs(ev, -7);
        for (size_t i = 0; i < outn; i++) obs(ev, out[i]);
        return;
    }
    if (ev_is(ev, "isect")) {
        RPRange a = { (uint32_t)ev->a[0], (size_t)ev->a[1] }, b = { (uint32_t)ev->a[2], (size_t)ev->a[3] };
        RPRange r = regp_range_intersection(&a, &b);
        RPFrame f; memset(&f, 0, sizeof f);
        f.header.address = a.address; f.header.blocksize = (uint32_t)a.size;
        RPRange r2 = regp_frame_intersection(&f, &b);
        obs(ev, r.address); obs(ev, (long long)r.size);
        obs(ev, (r2.address == r.address && r2.size == r.size) ? (regp_empty_intersection(&r) ? 1 : 0) : -9);
        return;
    }
    if (ev_is(ev, "pred")) {
        RPFrame f; memset(&f, 0, sizeof f);
        f.header.type = ev->a[0] == 99 ? RP_FRAME_INVALID : (RPFrameType)ev->a[0];
        obs(ev, regp_is_valid(&f)); obs(ev, regp_is_response(&f)); obs(ev, regp_is_read_request(&f)); obs(ev, regp_is_write_request(&f));
        obs(ev, regp_is_read_response(&f)); obs(ev, regp_is_write_response(&f)); obs(ev, regp_is_meta_message(&f));
        return;
    }
    if (ev_is(ev, "rx")) {
        int tr = (int)ev->a[1], mem16 = (int)ev->a[2];
        size_t cap = (size_t)ev->a[3];
        reset_ledger(); memset(&B, 0, sizeof B);
        L.failnext = (int)ev->a[4] & 1;
        L.slab = ((int)ev->a[4] >> 1) & 1;      /* allocator flavour: generic (size passed) or slab (fixed blocks) */
        srcflavour = ((int)ev->a[4] >> 2) & 3;
        snk_fail_at = (((int)ev->a[4] >> 4) & 1) ? 1 + (((int)ev->a[4] >> 5) & 1) : 0;   /* bit 4: the reply sink refuses its first (bit 5: second) call */
        snk_calls = 0;
        B.verdict = ev->a[5]; B.vaddr = get_w32(ev->a + 6);
        B.nd = (int)ev->a[8]; B.data = ev->a + 9;
        int at = 9 + B.nd;
        size_t nw = (size_t)ev->a[at++];
        unsigned char *wire = nw ? xblock(nw) : xblock0();
        for (size_t i = 0; i < nw; i++) wire[i] = (unsigned char)ev->a[at + (int)i];
        Arr wa = { wire, nw, 0 };
        outn = 0;
        setup(&p, tr, mem16, cap + sizeof(RPFrame), &wa);
        B.ws = mem16 ? 2 : 1;
        RPMaybeFrame mf; memset(&mf, 0, sizeof mf);
        int rc = regp_recv(&p, &mf);
        long long errid = mf.error.id;
        if (rc >= 0) (void)regp_process(&p, &mf);
        regp_free(&p, mf.frame);          /* as in the documented receive loop: whatever regp_recv said, the frame it handed out (if any) is released once */
        obs(ev, rc < 0 ? -1 : 0); obs(ev, rc < 0 ? 0 : errid);
        obs(ev, L.allocs); obs(ev, L.frees); obs(ev, L.badfree); obs(ev, l_live());
        obs(ev, B.ncalls);
        for (int i = 0; i < B.ncalls && i < 4; i++) {
            obs(ev, B.c[i].kind); put_w32(ev, B.c[i].addr); obs(ev, (long long)B.c[i].n);
            for (size_t k = 0; k < B.c[i].npl; k++) obs(ev, B.c[i].pl[k]);
        }
        obs(ev, -7);
        for (size_t i = 0; i < outn; i++) obs(ev, out[i]);
        if (nw) xfree(wire); else xfree0(wire);
        return;
    }
    fprintf(stderr, "regp: unknown op %s\n", ev->name);
    exit(2);
}
