/* Generic executor: reads event lines, runs them against the real library,
 * compares the projected observation with what the TLA+ model prescribed (E1)
 * and/or records it as ndjson for TLC trace validation (E2).
 *
 * line := name a1 a2 ... [ "|" o1 o2 ... { "||" o1 o2 ... } ]
 *       | "@" tag            (script boundary; reported with mismatches)
 *       | "#" comment
 * All values are decimal integers that fit an int64.
 */
#ifndef VERIF_DRIVER_H
#define VERIF_DRIVER_H

#include <stddef.h>
#include <stdint.h>

#define MAXV 8192

typedef struct {
    char name[40];
    long long a[MAXV];
    int na;
    long long o[MAXV];
    int no;
} Ev;

/* Implemented by each adapter. Executes one event; fills ev->o / ev->no. */
void adapter_exec(Ev *ev);
extern const char *adapter_name;

/* helpers for adapters */
static inline void obs(Ev *ev, long long v) { if (ev->no < MAXV) ev->o[ev->no++] = v; }
int ev_is(const Ev *ev, const char *name);
/* exact-size heap block: ASan redzones begin at the first illegal octet */
void *xblock(size_t n);
void xfree(void *p);
void *xblock0(void);
void xfree0(void *p);
/* number of ASan reports seen so far (recover mode) */
extern volatile int asan_reports;
/* 64-bit value <-> four 16-bit words, most significant first */
void put_w64(Ev *ev, uint64_t v);
uint64_t get_w64(const long long *a);
void put_w32(Ev *ev, uint32_t v);
uint32_t get_w32(const long long *a);
/* errno class: 0 stays 0, anything negative becomes -1 (R4) */
static inline long long neg1(long long rc) { return rc < 0 ? -1 : rc; }

#endif
