/* Generic executor: reads event lines, runs them against the real library,
 * compares the projected observation with what the TLA+ model prescribed (E1)
 * and/or records it as ndjson for TLC trace validation (E2).
 *
 * line := name a1 a2 ... [ "|" o1 o2 ... { "||" o1 o2 ... } ]
 *       | "@" tag            (script boundary; reported with mismatches)
 *       | "#" comment
 * All values are decimal integers that fit an int64.
 */
#ifndef VERIF_DRIVER_H
#define VERIF_DRIVER_H

#include <stddef.h>
#include <stdint.h>
#include <string.h>

#define MAXV 400000         /* (a 70000-element ring shows both iterator sequences in one observation) */

typedef struct {
    char name[40];
    long long a[MAXV];
    int na;
    long long o[MAXV];
    int no;
} Ev;

/* Implemented by each adapter. Executes one event; fills ev->o / ev->no. */
void adapter_exec(Ev *ev);
extern const char *adapter_name;

/* helpers for adapters */
static inline void obs(Ev *ev, long long v) { if (ev->no < MAXV) ev->o[ev->no++] = v; }
int ev_is(const Ev *ev, const char *name);
/* exact-size heap block: ASan redzones begin at the first illegal octet */
void *xblock(size_t n);
void xfree(void *p);
void *xblock0(void);
void xfree0(void *p);
/* number of ASan reports seen so far (recover mode) */
extern volatile int asan_reports;
/* 64-bit value <-> four 16-bit words, most significant first */
void put_w64(Ev *ev, uint64_t v);
uint64_t get_w64(const long long *a);
void put_w32(Ev *ev, uint32_t v);
uint32_t get_w32(const long long *a);
/* errno class: 0 stays 0, anything negative becomes -1 (R4) */
static inline long long neg1(long long rc) { return rc < 0 ? -1 : rc; }


/* Endpoint flavours.  A script line  "!flav k"  (not an event: neither recorded nor compared) sets harness_flavour for the
 * rest of the script.  Adapters whose subsystem talks to a Source/Sink build them through these helpers so that the same
 * model-prescribed behaviour is demanded through octet-style and chunk-style, whole and fragmenting endpoints:
 *   sink   flavour 0: chunk-style, the raw driver sees whole chunks        1: chunk-style, one octet accepted per call
 *          flavour 2: octet-style
 *   source flavour 0: as the adapter declares it                          1: the other style (octet <-> chunk of one octet)
 * The raw driver is always called with pieces of one octet in flavours 1/2, so drivers that count calls stay meaningful. */
extern int harness_flavour;
void driver_kick(void);
#ifdef INC_UFW_SOURCES_AND_SINKS_H
typedef struct { ChunkSink f; void *drv; } FlavSink;
static ssize_t flav_sink_one(void *d, const void *b, size_t n) { FlavSink *k = d; return n ? k->f(k->drv, b, 1) : 0; }
static int flav_sink_octet(void *d, unsigned char o) { FlavSink *k = d; return (int)k->f(k->drv, &o, 1); }
static inline void flav_sink_init(Sink *s, FlavSink *k, ChunkSink f, void *drv, int flavour)
{
    k->f = f; k->drv = drv;
    memset(s, 0xA5, sizeof *s);       /* the init calls must set every field */
    if (flavour % 3 == 1) chunk_sink_init(s, flav_sink_one, k);
    else if (flavour % 3 == 2) octet_sink_init(s, flav_sink_octet, k);
    else chunk_sink_init(s, f, drv);
}
typedef struct { ByteSource f; void *drv; } FlavOSource;
static ssize_t flav_osource_chunk(void *d, void *b, size_t n) { FlavOSource *k = d; return n ? k->f(k->drv, b) : 0; }
/* an octet-style raw driver, presented octet-style (flavour even) or as a chunk-style source delivering one octet per call */
static inline void flav_osource_init(Source *s, FlavOSource *k, ByteSource f, void *drv, int flavour)
{
    k->f = f; k->drv = drv;
    memset(s, 0xA5, sizeof *s);
    if (flavour % 2 == 1) chunk_source_init(s, flav_osource_chunk, k);
    else octet_source_init(s, f, drv);
}
#endif

#endif
