/* Adapter: ufw variable-length integers (C14).
 *  dec ty n o1..on | rcb offb <groups>  rcs srcpos <groups>     (groups only on success)
 *      the n octets sit in an exact-size heap block; buffer decoder (u and s variant) and the
 *      octet-wise source decoder (u and s variant) are run on it.  rc: count, -84 (EILSEQ), -1 (other)
 *  enc ty signed g1..gM | rc lenquery <octets> -7 <octets via sink>
 *  sweep32 lo hi | bad     structural check of every 32-bit value in [lo, hi) (see Varint.tla)
 *  rnd64 seed count | bad
 */
#include <errno.h>
#include <stdio.h>
#include <stdlib.h>
#include <string.h>
#include <stdint.h>

#include <ufw/byte-buffer.h>
#include <ufw/endpoints.h>
#include <ufw/variable-length-integer.h>

#include "driver.h"

const char *adapter_name = "varint";

typedef struct { const unsigned char *p; size_t n, pos; } Arr;
static int arr_octet(void *drv, void *out)
{
    Arr *a = drv;
    if (a->pos >= a->n) return -ENODATA;
    *(unsigned char *)out = a->p[a->pos++];
    return 1;
}
typedef struct { unsigned char b[32]; size_t n; } Cap;
/* A sink may itself encode something while it is being fed (a tee or trace sink): every second call of the capturing driver first
 * sends other values through all four *_to_sink functions into a throw-away sink.  The encoders are expected to be re-entrant. */
static int cap_depth;
static unsigned cap_calls;
static ssize_t cap_void(void *drv, const void *buf, size_t n) { (void)drv; (void)buf; return (ssize_t)n; }
static ssize_t cap_chunk(void *drv, const void *buf, size_t n)
{
    Cap *c = drv;
    if (cap_depth == 0 && (cap_calls++ % 2) == 0) {
        Sink v;
        cap_depth++;
        chunk_sink_init(&v, cap_void, NULL);
        (void)varint_u32_to_sink(&v, 0x0FFFFFFFu); (void)varint_s32_to_sink(&v, -2);
        (void)varint_u64_to_sink(&v, 0x7FFFFFFFFFFFull); (void)varint_s64_to_sink(&v, -3);
        cap_depth--;
    }
    if (c->n + n > sizeof c->b) return -ENOMEM;
    memcpy(c->b + c->n, buf, n);
    c->n += n;
    return (ssize_t)n;
}

static long long rcclass(int rc) { return rc >= 0 ? rc : (rc == -EILSEQ ? -84 : -1); }
static void groups(Ev *ev, uint64_t v, int m)
{
    for (int i = 0; i < m; i++) obs(ev, (long long)((v >> (7 * i)) & 0x7f));
}
static uint64_t from_groups(const long long *g, int m)
{
    uint64_t v = 0;
    for (int i = 0; i < m; i++) v |= (uint64_t)(g[i] & 0x7f) << (7 * i);
    return v;
}

/* structural predicate of Varint.tla: e is the minimal encoding of v */
static int is_encoding(const unsigned char *e, size_t n, uint64_t v, size_t max)
{
    if (n < 1 || n > max) return 0;
    uint64_t acc = 0;
    for (size_t i = 0; i < n; i++) {
        if (((e[i] & 0x80) != 0) != (i + 1 < n)) return 0;
        acc |= (uint64_t)(e[i] & 0x7f) << (7 * i);
    }
    if (n > 1 && e[n - 1] == 0) return 0;
    return acc == v;
}

static int check_value(int ty, uint64_t v)
{
    /* encode (u and s), length query, decode from buffer and from source; 0 = all fine */
    size_t max = ty == 32 ? 5 : 10;
    unsigned char *blk = xblock(max);
    memset(blk, 0xee, max);
    ByteBuffer b;
    byte_buffer_space(&b, blk, max);
    int rc = ty == 32 ? varint_encode_u32(&b, (uint32_t)v) : varint_encode_u64(&b, v);
    int bad = 0;
    if (rc < 1 || (size_t)rc != b.used || !is_encoding(blk, b.used, v, max)) bad |= 1;
    size_t lq = ty == 32 ? varint_u32_length((uint32_t)v) : varint_u64_length(v);
    size_t lqs = ty == 32 ? varint_s32_length((int32_t)(uint32_t)v) : varint_s64_length((int64_t)v);
    if (lq != (size_t)rc || lqs != lq) bad |= 2;
    unsigned char sblk[10];
    ByteBuffer sb;
    byte_buffer_space(&sb, sblk, max);
    int rcs = ty == 32 ? varint_encode_s32(&sb, (int32_t)(uint32_t)v) : varint_encode_s64(&sb, (int64_t)v);
    if (rcs != rc || memcmp(sblk, blk, (size_t)(rc > 0 ? rc : 0)) != 0) bad |= 4;
    if (rc >= 1 && rc <= (int)max) {
        /* decode from an exact-size copy */
        unsigned char *x = xblock((size_t)rc);
        memcpy(x, blk, (size_t)rc);
        ByteBuffer d = BYTE_BUFFER(x, (size_t)rc);
        uint64_t o64 = 0; uint32_t o32 = 0; int drc;
        if (ty == 32) { drc = varint_decode_u32(&d, &o32); o64 = o32; } else drc = varint_decode_u64(&d, &o64);
        if (drc != rc || o64 != v || d.offset != (size_t)rc) bad |= 8;
        Arr a = { x, (size_t)rc, 0 };
        Source src; FlavOSource fo;
        flav_osource_init(&src, &fo, arr_octet, &a, harness_flavour & 1);
        o64 = 0; o32 = 0;
        if (ty == 32) { drc = varint_u32_from_source(&src, &o32); o64 = o32; } else drc = varint_u64_from_source(&src, &o64);
        if (drc != rc || o64 != v || a.pos != (size_t)rc) bad |= 16;
        xfree(x);
    }
    xfree(blk);
    return bad;
}

void adapter_exec(Ev *ev)
{
    if (ev_is(ev, "@")) return;
    if (ev_is(ev, "dec")) {
        int ty = (int)ev->a[0];
        size_t n = (size_t)ev->a[1];
        int m = ty == 32 ? 5 : 10;
        unsigned char *blk = n ? xblock(n) : xblock0();
        for (size_t i = 0; i < n; i++) blk[i] = (unsigned char)ev->a[2 + i];
        /* buffer decoder */
        ByteBuffer b = BYTE_BUFFER(blk, n);
        ByteBuffer b2 = BYTE_BUFFER(blk, n);
        uint64_t u = 0, s = 0; uint32_t u32 = 0; int32_t s32 = 0; int64_t s64 = 0;
        int rc, rc2;
        if (ty == 32) {
            rc = varint_decode_u32(&b, &u32); rc2 = varint_decode_s32(&b2, &s32);
            u = u32; s = (uint32_t)s32;
        } else {
            rc = varint_decode_u64(&b, &u); rc2 = varint_decode_s64(&b2, &s64);
            s = (uint64_t)s64;
        }
        long long c = rcclass(rc);
        if (rcclass(rc2) != c || b.offset != b2.offset || (rc >= 0 && u != s)) c = -999; /* u/s variants disagree */
        /* the same octets behind three others, decoded at a non-zero read offset: same verdict and value, the
         * offset advanced by the same count (on failure unchanged); the block still ends with the string */
        {
            unsigned char *blk3 = xblock(n + 3);
            blk3[0] = 0x80; blk3[1] = 0xff; blk3[2] = 0x81;
            for (size_t i = 0; i < n; i++) blk3[3 + i] = blk[i];
            ByteBuffer b3 = BYTE_BUFFER_INIT(blk3, n + 3, n + 3, 3);
            uint64_t u3 = 0; uint32_t u3_32 = 0; int rc3;
            if (ty == 32) { rc3 = varint_decode_u32(&b3, &u3_32); u3 = u3_32; } else rc3 = varint_decode_u64(&b3, &u3);
            if (rcclass(rc3) != rcclass(rc) || b3.offset != 3 + b.offset || (rc >= 0 && u3 != u)) c = -998;
            xfree(blk3);
        }
        /* unpacking in place: the result object is the memory the string starts in (aligned, at least as large as the object): the
         * same verdict, count and value as with a result object elsewhere */
        for (int sg = 0; sg < 2; sg++) {
            size_t room = n > 8 ? n : 8;
            unsigned char *ip = aligned_alloc(8, (room + 7) & ~(size_t)7);
            memset(ip, 0x80, (room + 7) & ~(size_t)7);
            for (size_t i = 0; i < n; i++) ip[i] = blk[i];
            ByteBuffer bi = BYTE_BUFFER(ip, n);
            int rci; uint64_t vi = 0;
            if (ty == 32) { rci = sg ? varint_decode_s32(&bi, (int32_t *)ip) : varint_decode_u32(&bi, (uint32_t *)ip); if (rci >= 0) { uint32_t t; memcpy(&t, ip, 4); vi = t; } }
            else { rci = sg ? varint_decode_s64(&bi, (int64_t *)ip) : varint_decode_u64(&bi, (uint64_t *)ip); if (rci >= 0) memcpy(&vi, ip, 8); }
            if (rcclass(rci) != rcclass(rc) || bi.offset != b.offset || (rc >= 0 && vi != u)) c = -997;
            free(ip);
        }
        obs(ev, c);
        obs(ev, (long long)b.offset);
        if (rc >= 0) groups(ev, u, m);
        /* source decoder */
        Arr a = { blk, n, 0 }, a2 = { blk, n, 0 };
        Source src, src2; FlavOSource fo, fo2;
        flav_osource_init(&src, &fo, arr_octet, &a, harness_flavour & 1);
        flav_osource_init(&src2, &fo2, arr_octet, &a2, harness_flavour & 1);
        u = s = 0; u32 = 0; s32 = 0; s64 = 0;
        if (ty == 32) {
            rc = varint_u32_from_source(&src, &u32); rc2 = varint_s32_from_source(&src2, &s32);
            u = u32; s = (uint32_t)s32;
        } else {
            rc = varint_u64_from_source(&src, &u); rc2 = varint_s64_from_source(&src2, &s64);
            s = (uint64_t)s64;
        }
        c = rcclass(rc);
        if (rcclass(rc2) != c || a.pos != a2.pos || (rc >= 0 && u != s)) c = -999;
        obs(ev, c);
        if (rc >= 0) { obs(ev, (long long)a.pos); groups(ev, u, m); }
        if (n) xfree(blk); else xfree0(blk);
        return;
    }
    if (ev_is(ev, "enc")) {
        int ty = (int)ev->a[0], sg = (int)ev->a[1];
        int m = ty == 32 ? 5 : 10;
        uint64_t v = from_groups(ev->a + 2, m);
        size_t max = (size_t)m;
        /* every third case: the buffer object has been used for another (longest) encoding before and is not reset in between -
         * what it holds afterwards is the new encoding and nothing of the old one */
        static unsigned encs;
        int reused = (encs++ % 3) == 2;
        size_t bsz = reused ? 2 * max : max;
        unsigned char *blk = xblock(bsz);
        memset(blk, 0xee, bsz);
        ByteBuffer b;
        byte_buffer_space(&b, blk, bsz);
        if (reused) { if (ty == 32) (void)varint_encode_u32(&b, 0xFFFFFFFFu); else (void)varint_encode_u64(&b, ~(uint64_t)0); }
        int rc; size_t lq;
        Cap cap = { {0}, 0 };
        Sink snk; FlavSink fk;
        flav_sink_init(&snk, &fk, cap_chunk, &cap, harness_flavour >> 1);
        int src;
        if (ty == 32 && !sg) { rc = varint_encode_u32(&b, (uint32_t)v); lq = varint_u32_length((uint32_t)v); src = varint_u32_to_sink(&snk, (uint32_t)v); }
        else if (ty == 32) { rc = varint_encode_s32(&b, (int32_t)(uint32_t)v); lq = varint_s32_length((int32_t)(uint32_t)v); src = varint_s32_to_sink(&snk, (int32_t)(uint32_t)v); }
        else if (!sg) { rc = varint_encode_u64(&b, v); lq = varint_u64_length(v); src = varint_u64_to_sink(&snk, v); }
        else { rc = varint_encode_s64(&b, (int64_t)v); lq = varint_s64_length((int64_t)v); src = varint_s64_to_sink(&snk, (int64_t)v); }
        obs(ev, rc);
        obs(ev, (long long)lq);
        for (size_t i = 0; i < b.used && i < max; i++) obs(ev, blk[i]);
        obs(ev, -7);
        (void)src;
        for (size_t i = 0; i < cap.n; i++) obs(ev, cap.b[i]);
        xfree(blk);
        return;
    }
    if (ev_is(ev, "sweep32")) {
        long long bad = 0, first = -1;
        for (uint64_t v = (uint64_t)ev->a[0], kk = 0; v < (uint64_t)ev->a[1]; v += (uint64_t)(ev->na > 2 ? ev->a[2] : 1), ((++kk & 0xfff) == 0 ? driver_kick() : (void)0))
            if (check_value(32, v)) { if (!bad) first = (long long)v; bad++; }
        obs(ev, bad); obs(ev, first);
        return;
    }
    if (ev_is(ev, "rnd64")) {
        uint64_t x = (uint64_t)ev->a[0] * 0x9E3779B97F4A7C15ull + 1;
        long long bad = 0;
        for (long long i = 0; i < ev->a[1]; i++) {
            if ((i & 0xfff) == 0) driver_kick();
            x ^= x << 13; x ^= x >> 7; x ^= x << 17;
            uint64_t v = x >> (x % 64);   /* all magnitudes */
            if (check_value(64, v)) bad++;
            if (check_value(32, v & 0xffffffffu)) bad++;
        }
        obs(ev, bad);
        return;
    }
    fprintf(stderr, "varint: unknown op %s\n", ev->name);
    exit(2);
}
