/* Adapter: CRC-16/ARC (C16). The oracle table E0[c] = Step(c,0) is loaded from TLC's output. */
#include <stdio.h>
#include <stdlib.h>
#include <string.h>
#include <stdint.h>

#include <ufw/crc/crc16-arc.h>

#include "driver.h"

const char *adapter_name = "crc";
static uint16_t T[65536];
static int loaded = 0;

static int host_le(void) { uint16_t x = 1; return *(unsigned char *)&x == 1; }

void adapter_exec(Ev *ev)
{
    if (ev_is(ev, "@")) return;
    if (ev_is(ev, "host")) { obs(ev, host_le()); return; }
    if (ev_is(ev, "step")) {
        uint8_t d = (uint8_t)ev->a[1];
        obs(ev, ufw_crc16_arc((uint16_t)ev->a[0], &d, 1));
        return;
    }
    if (ev_is(ev, "crc")) {
        uint16_t c = (uint16_t)ev->a[0];
        size_t n = (size_t)ev->a[1];
        uint8_t *b = xblock(n);
        for (size_t i = 0; i < n; i++) b[i] = (uint8_t)ev->a[2 + i];
        uint16_t whole = ufw_crc16_arc(c, b, n);
        long long bad = 0;
        for (size_t k = 0; k <= n; k++)
            if (ufw_crc16_arc(ufw_crc16_arc(c, b, k), b + k, n - k) != whole) bad++;
        obs(ev, whole);
        obs(ev, bad);
        obs(ev, c == CRC16_ARC_INITIAL ? (ufw_buffer_crc16_arc(b, n) == whole) : 1);
        xfree(b);
        return;
    }
    if (ev_is(ev, "crcw")) {
        uint16_t c = (uint16_t)ev->a[0];
        size_t n = (size_t)ev->a[1];
        uint16_t *w = xblock(n * 2);
        for (size_t i = 0; i < n; i++) w[i] = (uint16_t)ev->a[2 + i];
        uint16_t r = ufw_crc16_arc_u16(c, w, n);
        if (c == CRC16_ARC_INITIAL && ufw_buffer_crc16_arc_u16(w, n) != r) obs(ev, -1);
        else obs(ev, r);
        xfree(w);
        return;
    }
    if (ev_is(ev, "crcbig")) {
        /* crcbig c n mul add: a long buffer generated here (n even); octet variant, and word variant over the same image */
        uint16_t c = (uint16_t)ev->a[0];
        size_t n = (size_t)ev->a[1];
        uint16_t *w = xblock(n);
        uint8_t *b = (uint8_t *)w;
        for (size_t i = 0; i < n; i++) b[i] = (uint8_t)((i * (size_t)ev->a[2] + (size_t)ev->a[3]) % 256);
        obs(ev, ufw_crc16_arc(c, b, n));
        obs(ev, ufw_crc16_arc_u16(c, w, n / 2));
        xfree(w);
        return;
    }
    if (ev_is(ev, "crchuge")) {
        /* crchuge c mib mul add: a buffer of mib MiB (more than any stack holds): the checksum of the whole in one call must be
         * the checksum continued over its 64 KiB pieces (the concatenation law; pieces of that size are validated by crcbig), for
         * the octet and for the word variant.  Observation: agree(octets) agree(words) */
        uint16_t c = (uint16_t)ev->a[0];
        size_t n = (size_t)ev->a[1] << 20;
        uint16_t *w = malloc(n);
        uint8_t *b = (uint8_t *)w;
        for (size_t i = 0; i < n; i++) b[i] = (uint8_t)((i * (size_t)ev->a[2] + (size_t)ev->a[3] + (i >> 16)) % 256);
        driver_kick();
        uint16_t whole = ufw_crc16_arc(c, b, n), wholew = ufw_crc16_arc_u16(c, w, n / 2), pc = c, pw = c;
        driver_kick();
        for (size_t at = 0; at < n; at += 65536) {
            pc = ufw_crc16_arc(pc, b + at, 65536);
            pw = ufw_crc16_arc_u16(pw, w + at / 2, 32768);
        }
        obs(ev, whole == pc);
        obs(ev, wholew == pw && wholew == whole);
        free(w);
        return;
    }
    if (ev_is(ev, "table")) {
        size_t base = (size_t)ev->a[0];
        for (int i = 1; i < ev->na; i++) { T[base + (size_t)i - 1] = (uint16_t)ev->a[i]; loaded++; }
        obs(ev, loaded);
        return;
    }
    if (ev_is(ev, "sweep")) {
        /* all 2^24 (state, octet) pairs */
        long long bad = 0, fc = -1, fd = -1;
        for (uint32_t c = 0; c < 65536; c++, driver_kick())
            for (uint32_t d = 0; d < 256; d++) {
                uint8_t o = (uint8_t)d;
                if (ufw_crc16_arc((uint16_t)c, &o, 1) != T[c ^ d]) { if (!bad) { fc = c; fd = d; } bad++; }
            }
        obs(ev, bad); obs(ev, fc); obs(ev, fd);
        return;
    }
    if (ev_is(ev, "sweep2")) {
        /* two-octet buffers and single host words from states first, first+stride, ... */
        long long bad = 0, badw = 0;
        for (uint32_t c = (uint32_t)ev->a[0]; c < 65536; c += (uint32_t)ev->a[1], driver_kick())
            for (uint32_t d = 0; d < 65536; d++) {
                uint8_t o[2] = { (uint8_t)(d & 0xff), (uint8_t)(d >> 8) };
                uint16_t want = T[T[c ^ o[0]] ^ o[1]];
                if (ufw_crc16_arc((uint16_t)c, o, 2) != want) bad++;
                uint16_t w;
                memcpy(&w, o, 2);
                if (ufw_crc16_arc_u16((uint16_t)c, &w, 1) != want) badw++;
            }
        obs(ev, bad); obs(ev, badw);
        return;
    }
    fprintf(stderr, "crc: unknown op %s\n", ev->name);
    exit(2);
}
