/* Link-time interposition (ld --wrap) between the repository's own test programs (and the library modules that use the
 * byte buffer / the checksum) and the library: every call of the wrapped public functions is recorded with the state
 * of the object before and after, in the vocabulary of the trace specifications ByteBufferSuite.tla / Crc16Trace.tla.
 * No source hook: calls inside the defining translation unit are not wrapped, everything else is.
 * Output: ndjson appended to $UFW_SUITE_TRACE.bb and $UFW_SUITE_TRACE.crc (nothing is recorded when unset). */
#include <stdio.h>
#include <stdlib.h>
#include <string.h>
#include <stdint.h>
#include <sys/types.h>

#include <ufw/byte-buffer.h>
#include <ufw/crc/crc16-arc.h>
#include <ufw/variable-length-integer.h>
#include <errno.h>

#define MAXSZ 1024u

static FILE *fbb, *fcrc, *fvi;
static int opened;
static unsigned long skipped;
static void fin(void)
{
    if (fbb) { fprintf(fbb, "{\"op\":\"skipped\",\"a\":[%lu],\"o\":[],\"asan\":0}\n", skipped); fclose(fbb); }
    if (fcrc) fclose(fcrc);
    if (fvi) fclose(fvi);
}
static void open_once(void)
{
    if (opened) return;
    opened = 1;
    const char *p = getenv("UFW_SUITE_TRACE");
    if (!p) return;
    char path[4096];
    snprintf(path, sizeof path, "%s.bb", p); fbb = fopen(path, "a");
    snprintf(path, sizeof path, "%s.crc", p); fcrc = fopen(path, "a");
    snprintf(path, sizeof path, "%s.vi", p); fvi = fopen(path, "a");
    atexit(fin);
}

int __real_byte_buffer_set(ByteBuffer *, void *, size_t, size_t, size_t);
void __real_byte_buffer_null(ByteBuffer *);
int __real_byte_buffer_use(ByteBuffer *, void *, size_t);
int __real_byte_buffer_space(ByteBuffer *, void *, size_t);
int __real_byte_buffer_add(ByteBuffer *, const void *, size_t);
int __real_byte_buffer_consume(ByteBuffer *, void *, size_t);
ssize_t __real_byte_buffer_consume_at_most(ByteBuffer *, void *, size_t);
int __real_byte_buffer_rewind(ByteBuffer *);
void __real_byte_buffer_clear(ByteBuffer *);
void __real_byte_buffer_reset(ByteBuffer *);
void __real_byte_buffer_repeat(ByteBuffer *);
size_t __real_byte_buffer_avail(const ByteBuffer *);
size_t __real_byte_buffer_rest(const ByteBuffer *);
uint16_t __real_ufw_crc16_arc(uint16_t, const void *, size_t);
uint16_t __real_ufw_crc16_arc_u16(uint16_t, const uint16_t *, size_t);
uint16_t __real_ufw_buffer_crc16_arc(const void *, size_t);
uint16_t __real_ufw_buffer_crc16_arc_u16(const uint16_t *, size_t);

static int sane(const ByteBuffer *b) { return b->data != NULL && b->size > 0 && b->size <= MAXSZ && b->used <= b->size && b->offset <= b->used; }
static void octets(FILE *f, const unsigned char *p, size_t n) { for (size_t i = 0; i < n; i++) fprintf(f, ",%u", p[i]); }

/* the object as the model sees it, in front of a call */
static void adopt(const ByteBuffer *b)
{
    fprintf(fbb, "{\"op\":\"adopt\",\"a\":[%zu,%zu,%zu", b->size, b->used, b->offset);
    octets(fbb, b->data, b->used);
    fprintf(fbb, "],\"o\":[],\"asan\":0}\n");
}
struct snap { ByteBuffer b; unsigned char mem[MAXSZ]; };
static void take(struct snap *s, const ByteBuffer *b) { s->b = *b; memcpy(s->mem, b->data, b->size); }
static int changed(const struct snap *s, const ByteBuffer *b) { return memcmp(&s->b, b, sizeof *b) != 0 || memcmp(s->mem, s->b.data, s->b.size) != 0; }
static void head(const char *op) { fprintf(fbb, "{\"op\":\"%s\",\"a\":[", op); }
static void proj(const ByteBuffer *b, long long rc, int frame)
{
    fprintf(fbb, "],\"o\":[%lld,%zu,%zu,%zu,%d", rc, b->size, b->used, b->offset, frame);
    if (b->data && b->used <= b->size) octets(fbb, b->data, b->used);
}
static void tail(void) { fprintf(fbb, "],\"asan\":0}\n"); }

/* set-up calls: the object may hold anything beforehand; the model starts from "no block" */
static int record_setup(const char *op, ByteBuffer *b, void *data, size_t size, size_t used, size_t offset, int which)
{
    open_once();
    ByteBuffer before = *b;
    int rc = which == 0 ? __real_byte_buffer_set(b, data, size, used, offset) : which == 1 ? __real_byte_buffer_use(b, data, size) : __real_byte_buffer_space(b, data, size);
    if (!fbb) return rc;
    if (size > MAXSZ || used > MAXSZ) { skipped++; return rc; }
    fprintf(fbb, "{\"op\":\"@\",\"tag\":\"suite\",\"a\":[],\"o\":[],\"asan\":0}\n");
    head(op);
    size_t nmem = which == 0 ? used : which == 1 ? size : 0;
    if (which == 0) fprintf(fbb, "%zu,%zu,%zu,%d", size, used, offset, data == NULL);
    else fprintf(fbb, "%zu,%d", size, data == NULL);
    if (data != NULL && nmem <= size) octets(fbb, data, nmem);
    if (rc < 0) fprintf(fbb, "],\"o\":[-1,0,0,0,%d", memcmp(&before, b, sizeof *b) != 0);
    else proj(b, 0, 0);
    tail();
    return rc;
}
int __wrap_byte_buffer_set(ByteBuffer *b, void *d, size_t s, size_t u, size_t o) { return record_setup("sset", b, d, s, u, o, 0); }
int __wrap_byte_buffer_use(ByteBuffer *b, void *d, size_t s) { return record_setup("suse", b, d, s, s, 0, 1); }
int __wrap_byte_buffer_space(ByteBuffer *b, void *d, size_t s) { return record_setup("sspace", b, d, s, 0, 0, 2); }

void __wrap_byte_buffer_null(ByteBuffer *b)
{
    open_once();
    __real_byte_buffer_null(b);
    if (!fbb) return;
    head("null");
    fprintf(fbb, "],\"o\":[0,%zu,%zu,%zu,%d", b->size, b->used, b->offset, b->data != NULL);
    tail();
}

int __wrap_byte_buffer_add(ByteBuffer *b, const void *data, size_t n)
{
    open_once();
    if (!fbb || !sane(b) || n > 2 * MAXSZ) { if (fbb) skipped++; return __real_byte_buffer_add(b, data, n); }
    struct snap s; take(&s, b);
    adopt(b);
    int rc = __real_byte_buffer_add(b, data, n);
    head("add");
    fprintf(fbb, "%zu", n); octets(fbb, data, n);
    proj(b, rc < 0 ? -1 : 0, rc < 0 ? changed(&s, b) : 0);
    tail();
    return rc;
}
static void returned(const unsigned char *dst, size_t n) { fprintf(fbb, ",-7"); octets(fbb, dst, n); }
int __wrap_byte_buffer_consume(ByteBuffer *b, void *dst, size_t n)
{
    open_once();
    if (!fbb || !sane(b)) { if (fbb) skipped++; return __real_byte_buffer_consume(b, dst, n); }
    struct snap s; take(&s, b);
    adopt(b);
    int rc = __real_byte_buffer_consume(b, dst, n);
    head("consume"); fprintf(fbb, "%zu", n);
    proj(b, rc < 0 ? -1 : 0, rc < 0 ? changed(&s, b) : 0);
    returned(dst, rc < 0 ? 0 : n);
    tail();
    return rc;
}
ssize_t __wrap_byte_buffer_consume_at_most(ByteBuffer *b, void *dst, size_t n)
{
    open_once();
    if (!fbb || !sane(b)) { if (fbb) skipped++; return __real_byte_buffer_consume_at_most(b, dst, n); }
    struct snap s; take(&s, b);
    adopt(b);
    ssize_t rc = __real_byte_buffer_consume_at_most(b, dst, n);
    /* the model spells sizes beyond its integers as "everything" */
    head(n > 100000000u ? "camhuge" : "consume_at_most"); fprintf(fbb, "%zu", n > 100000000u ? (size_t)0 : n);
    proj(b, rc < 0 ? -1 : (long long)rc, rc < 0 ? changed(&s, b) : 0);
    returned(dst, rc < 0 ? 0 : (size_t)rc);
    tail();
    return rc;
}
int __wrap_byte_buffer_rewind(ByteBuffer *b)
{
    open_once();
    if (!fbb || !sane(b)) { if (fbb) skipped++; return __real_byte_buffer_rewind(b); }
    adopt(b);
    int rc = __real_byte_buffer_rewind(b);
    head("rewind"); proj(b, rc < 0 ? -1 : 0, 0); tail();
    return rc;
}
#define VOIDOP(NAME, POST)                                                             \
    void __wrap_byte_buffer_##NAME(ByteBuffer *b)                                       \
    {                                                                                  \
        open_once();                                                                   \
        if (!fbb || !sane(b)) { if (fbb) skipped++; __real_byte_buffer_##NAME(b); return; } \
        adopt(b);                                                                      \
        __real_byte_buffer_##NAME(b);                                                   \
        long long rc = 0; POST                                                         \
        head(#NAME); proj(b, rc, 0); tail();                                           \
    }
VOIDOP(clear, for (size_t i = 0; i < b->size; i++) rc += b->data[i] != 0;)
VOIDOP(reset, )
VOIDOP(repeat, )
#define QUERY(NAME)                                                                    \
    size_t __wrap_byte_buffer_##NAME(const ByteBuffer *b)                               \
    {                                                                                  \
        open_once();                                                                   \
        if (!fbb || !sane(b)) { if (fbb) skipped++; return __real_byte_buffer_##NAME(b); } \
        struct snap s; take(&s, b);                                                    \
        adopt(b);                                                                      \
        size_t r = __real_byte_buffer_##NAME(b);                                        \
        head(#NAME); proj(b, (long long)r, changed(&s, b)); tail();                    \
        return r;                                                                      \
    }
QUERY(avail)
QUERY(rest)

uint16_t __wrap_ufw_crc16_arc(uint16_t c, const void *data, size_t n)
{
    open_once();
    uint16_t r = __real_ufw_crc16_arc(c, data, n);
    if (fcrc && n <= 600) {
        fprintf(fcrc, "{\"op\":\"crc\",\"a\":[%u,%zu", c, n); octets(fcrc, data, n);
        fprintf(fcrc, "],\"o\":[%u,0,1],\"asan\":0}\n", r);
    }
    return r;
}
uint16_t __wrap_ufw_crc16_arc_u16(uint16_t c, const uint16_t *data, size_t n)
{
    open_once();
    uint16_t r = __real_ufw_crc16_arc_u16(c, data, n);
    if (fcrc && n <= 300) {
        fprintf(fcrc, "{\"op\":\"crcw\",\"a\":[%u,%zu", c, n);
        for (size_t i = 0; i < n; i++) fprintf(fcrc, ",%u", data[i]);
        fprintf(fcrc, "],\"o\":[%u],\"asan\":0}\n", r);
    }
    return r;
}
/* the whole-buffer variants start from CRC16_ARC_INITIAL */
uint16_t __wrap_ufw_buffer_crc16_arc(const void *data, size_t n)
{
    open_once();
    uint16_t r = __real_ufw_buffer_crc16_arc(data, n);
    if (fcrc && n <= 600) {
        fprintf(fcrc, "{\"op\":\"crc\",\"a\":[%u,%zu", CRC16_ARC_INITIAL, n); octets(fcrc, data, n);
        fprintf(fcrc, "],\"o\":[%u,0,1],\"asan\":0}\n", r);
    }
    return r;
}
uint16_t __wrap_ufw_buffer_crc16_arc_u16(const uint16_t *data, size_t n)
{
    open_once();
    uint16_t r = __real_ufw_buffer_crc16_arc_u16(data, n);
    if (fcrc && n <= 300) {
        fprintf(fcrc, "{\"op\":\"crcw\",\"a\":[%u,%zu", CRC16_ARC_INITIAL, n);
        for (size_t i = 0; i < n; i++) fprintf(fcrc, ",%u", data[i]);
        fprintf(fcrc, "],\"o\":[%u],\"asan\":0}\n", r);
    }
    return r;
}

/* ---- varint: buffer decoders, encoders, length queries (vocabulary of VarintTrace.tla: values as 7-bit groups, least significant first)
 *   sdecb ty n o1..on | rc consumed g1..gm     (the n octets from the read offset to the end of the buffer's memory, at most 12)
 *   senc ty g1..gm | rc (used - offset) e1..     (only successful calls)          slen ty g1..gm | length */
static void vgroups(FILE *f, uint64_t v, int m) { for (int i = 0; i < m; i++) fprintf(f, ",%u", (unsigned)((v >> (7 * i)) & 0x7f)); }
#define VDEC(NAME, T, U, TY, M)                                                                             \
    int __real_varint_decode_##NAME(ByteBuffer *, T *);                                                   \
    int __wrap_varint_decode_##NAME(ByteBuffer *b, T *v)                                                  \
    {                                                                                                     \
        open_once();                                                                                      \
        if (!fvi || b->data == NULL || b->offset > b->size) return __real_varint_decode_##NAME(b, v);      \
        size_t n = b->size - b->offset; if (n > 12) n = 12;                                               \
        unsigned char in[12]; memcpy(in, b->data + b->offset, n);                                         \
        size_t off = b->offset;                                                                           \
        int rc = __real_varint_decode_##NAME(b, v);                                                       \
        fprintf(fvi, "{\"op\":\"sdecb\",\"a\":[%d,%zu", TY, n); octets(fvi, in, n);                          \
        fprintf(fvi, "],\"o\":[%d,%zu", rc >= 0 ? rc : (rc == -EILSEQ ? -84 : -1), b->offset - off);        \
        if (rc >= 0) vgroups(fvi, (uint64_t)(U)*v, M);                                                     \
        fprintf(fvi, "],\"asan\":0}\n");                                                                   \
        return rc;                                                                                        \
    }
VDEC(u32, uint32_t, uint32_t, 32, 5)
VDEC(s32, int32_t, uint32_t, 32, 5)
VDEC(u64, uint64_t, uint64_t, 64, 10)
VDEC(s64, int64_t, uint64_t, 64, 10)
#define VENC(NAME, T, U, TY, M)                                                                           \
    int __real_varint_encode_##NAME(ByteBuffer *, T);                                                     \
    int __wrap_varint_encode_##NAME(ByteBuffer *b, T v)                                                   \
    {                                                                                                     \
        open_once();                                                                                      \
        size_t off = b->offset;                                                                           \
        int rc = __real_varint_encode_##NAME(b, v);                                                       \
        if (fvi && rc >= 0) {                                                                             \
            fprintf(fvi, "{\"op\":\"senc\",\"a\":[%d", TY); vgroups(fvi, (uint64_t)(U)v, M);                   \
            fprintf(fvi, "],\"o\":[%d,%zu", rc, b->used - off); octets(fvi, b->data + off, (size_t)rc);    \
            fprintf(fvi, "],\"asan\":0}\n");                                                               \
        }                                                                                                 \
        return rc;                                                                                        \
    }                                                                                                     \
    size_t __real_varint_##NAME##_length(T);                                                              \
    size_t __wrap_varint_##NAME##_length(T v)                                                             \
    {                                                                                                     \
        open_once();                                                                                      \
        size_t r = __real_varint_##NAME##_length(v);                                                      \
        if (fvi) {                                                                                        \
            fprintf(fvi, "{\"op\":\"slen\",\"a\":[%d", TY); vgroups(fvi, (uint64_t)(U)v, M);                   \
            fprintf(fvi, "],\"o\":[%zu],\"asan\":0}\n", r);                                                \
        }                                                                                                 \
        return r;                                                                                         \
    }
VENC(u32, uint32_t, uint32_t, 32, 5)
VENC(s32, int32_t, uint32_t, 32, 5)
VENC(u64, uint64_t, uint64_t, 64, 10)
VENC(s64, int64_t, uint64_t, 64, 10)
