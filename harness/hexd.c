/* Adapter: hexdump (extra X08, spec/Hexdump.tla).   dump perline perchunk offhi offlo n o1..on | rc <characters printed> */
#include <stdarg.h>
#include <stdio.h>
#include <stdlib.h>
#include <string.h>
#include <stdint.h>

#include <ufw/hexdump.h>

#include "driver.h"

const char *adapter_name = "hexd";

static char text[1 << 16];
static size_t ntext;
static int capture(void *drv, const char *fmt, ...)
{
    (void)drv;
    va_list ap;
    va_start(ap, fmt);
    int rc = vsnprintf(text + ntext, sizeof text - ntext, fmt, ap);
    va_end(ap);
    if (rc > 0) ntext += (size_t)rc;
    return rc;
}

void adapter_exec(Ev *ev)
{
    if (ev_is(ev, "@")) return;
    if (!ev_is(ev, "dump")) { obs(ev, -999); return; }
    struct hexdump_cfg cfg = { capture, NULL, (size_t)ev->a[0], (size_t)ev->a[1] };
    size_t off = ((size_t)ev->a[2] << 16) | (size_t)ev->a[3];
    size_t n = (size_t)ev->a[4];
    unsigned char *mem = n ? xblock(n) : xblock0();
    for (size_t i = 0; i < n; i++) mem[i] = (unsigned char)ev->a[5 + i];
    ntext = 0;
    int rc = hexdump(&cfg, mem, n, off);
    obs(ev, rc);
    for (size_t i = 0; i < ntext; i++) obs(ev, (unsigned char)text[i]);
    if (n) xfree(mem); else xfree0(mem);
}
