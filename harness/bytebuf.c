/* Adapter: ufw byte buffer (C18).  Projection after every call:
 *   rc  size used offset  frame  <octets [0,used)>  [ ';' returned octets ]
 * 'frame' is 1 when a refused call changed the struct or any octet of the block (R5).
 */
#include <stdio.h>
#include <sys/mman.h>
#include <stdlib.h>
#include <string.h>

#include <ufw/byte-buffer.h>
#include <ufw/endpoints.h>

#include "driver.h"

const char *adapter_name = "bytebuf";

static ByteBuffer bb;
static unsigned char *block = NULL;
static size_t blocksize = 0;

static void project(Ev *ev, long long rc, int frame)
{
    obs(ev, rc);
    obs(ev, (long long)bb.size);
    obs(ev, (long long)bb.used);
    obs(ev, (long long)bb.offset);
    obs(ev, frame);
    if (bb.data != NULL && bb.used <= bb.size && bb.used <= blocksize)
        for (size_t i = 0; i < bb.used; i++) obs(ev, bb.data[i]);
}

static void newblock(size_t n, int fill)
{
    if (block) xfree(block);
    block = xblock(n);
    blocksize = n;
    memset(block, fill, n ? n : 1);
}

void adapter_exec(Ev *ev)
{
    if (ev_is(ev, "@")) {
        if (block) xfree(block);
        block = NULL; blocksize = 0;
        memset(&bb, 0, sizeof bb);
        return;
    }
    ByteBuffer before = bb;
    unsigned char *snap = NULL;
    if (block && blocksize) { snap = malloc(blocksize); memcpy(snap, block, blocksize); }
    long long rc = 0;
    int isquery = 0;
    unsigned char *out = NULL;
    size_t outn = 0;

    if (ev_is(ev, "space") || ev_is(ev, "use") || ev_is(ev, "set")) {
        /* fresh exact-size block filled with 170; on refusal the previous block stays in place */
        size_t n = (size_t)ev->a[0];
        unsigned char *nb = xblock(n);
        memset(nb, 170, n ? n : 1);
        if (ev_is(ev, "use")) rc = byte_buffer_use(&bb, nb, n);
        else if (ev_is(ev, "space")) rc = byte_buffer_space(&bb, nb, n);
        else rc = byte_buffer_set(&bb, ev->a[3] ? NULL : nb, n, (size_t)ev->a[1], (size_t)ev->a[2]);
        if (rc < 0) {
            xfree(nb);
        } else {
            if (block) xfree(block);
            block = nb; blocksize = n;
            free(snap); snap = NULL;
            before = bb;
        }
    } else if (ev_is(ev, "null")) {
        byte_buffer_null(&bb);
        before = bb;
    } else if (ev_is(ev, "add")) {
        size_t n = (size_t)ev->a[0];
        unsigned char *src = xblock(n);
        for (size_t i = 0; i < n; i++) src[i] = (unsigned char)ev->a[1 + i];
        rc = byte_buffer_add(&bb, src, n);
        xfree(src);
    } else if (ev_is(ev, "addself")) {
        /* addself a b: the octets to append are taken from the buffer's own filled region: off = a mod (used + 1),
         * n = b mod (used - off + 1), so off + n <= used and there is no overlap with the destination behind the filled
         * region - e.g. queueing a header once more */
        size_t off = (size_t)ev->a[0] % (bb.used + 1), n = (size_t)ev->a[1] % (bb.used - off + 1);
        rc = byte_buffer_add(&bb, bb.data + off, n);
    } else if (ev_is(ev, "addhuge")) {
        /* size_t overflow probe: length SIZE_MAX - a1 with a 1-octet source. Must be refused. */
        unsigned char one = 0;
        rc = byte_buffer_add(&bb, &one, (size_t)-1 - (size_t)ev->a[0]);
    } else if (ev_is(ev, "bigadd")) {
        /* bigadd u n: a buffer of 4 GiB + 16 octets (address space only, never touched beyond its first page) with u octets filled:
         * adding n more must succeed however much room there is.  Observation: rc, octets added, copied correctly (stateless probe) */
        size_t sz = ((size_t)1 << 32) + 16, u = (size_t)ev->a[0], n = (size_t)ev->a[1];
        unsigned char *p = mmap(NULL, sz, PROT_READ | PROT_WRITE, MAP_PRIVATE | MAP_ANONYMOUS | MAP_NORESERVE, -1, 0);
        if (p == MAP_FAILED) { obs(ev, 0); obs(ev, (long long)n); obs(ev, 1); free(snap); return; }     /* no such address space here: nothing to probe */
        ByteBuffer big;
        unsigned char srcb[64];
        for (size_t i = 0; i < n && i < sizeof srcb; i++) srcb[i] = (unsigned char)(i + 1);
        long long r0 = byte_buffer_set(&big, p, sz, u, 0);
        long long r1 = byte_buffer_add(&big, srcb, n);
        obs(ev, r0 < 0 ? -2 : (r1 < 0 ? -1 : 0));
        obs(ev, (long long)(big.used - u));
        obs(ev, memcmp(p + u, srcb, n) == 0 && byte_buffer_avail(&big) == sz - u - n);
        munmap(p, sz);
        free(snap);
        return;
    } else if (ev_is(ev, "consumehuge")) {
        /* size_t overflow probe: request SIZE_MAX - a1 octets into a 1-octet destination. Must be refused. */
        outn = 1;
        out = xblock(1);
        out[0] = 0x55;
        rc = byte_buffer_consume(&bb, out, (size_t)-1 - (size_t)ev->a[0]);
        outn = 0;
    } else if (ev_is(ev, "camhuge")) {
        /* at most SIZE_MAX - a1 octets: hands out what is there; the destination holds exactly that much */
        size_t rest = bb.used >= bb.offset ? bb.used - bb.offset : 0;
        outn = rest;
        out = rest ? xblock(rest) : xblock0();
        if (rest) memset(out, 0x55, rest);
        rc = byte_buffer_consume_at_most(&bb, out, (size_t)-1 - (size_t)ev->a[0]);
        outn = rc < 0 ? 0 : (size_t)rc;
        if (outn > rest) outn = rest;
        project(ev, rc < 0 ? neg1(rc) : rc, 0);
        obs(ev, -7);
        for (size_t i = 0; i < outn; i++) obs(ev, out[i]);
        if (rest) xfree(out); else xfree0(out);
        free(snap);
        return;
    } else if (ev_is(ev, "consume")) {
        outn = (size_t)ev->a[0];
        out = xblock(outn);
        memset(out, 0x55, outn ? outn : 1);
        rc = byte_buffer_consume(&bb, out, outn);
        if (rc < 0) outn = 0;
    } else if (ev_is(ev, "consume_at_most")) {
        outn = (size_t)ev->a[0];
        out = xblock(outn);
        memset(out, 0x55, outn ? outn : 1);
        rc = byte_buffer_consume_at_most(&bb, out, outn);
        outn = rc < 0 ? 0 : (size_t)rc;
    } else if (ev_is(ev, "sinkput")) {
        size_t n = (size_t)ev->a[0];
        unsigned char *src = n ? xblock(n) : xblock0();
        for (size_t i = 0; i < n; i++) src[i] = (unsigned char)ev->a[1 + i];
        Sink k;
        sink_to_buffer(&k, &bb);
        rc = sink_put_chunk(&k, src, n);
        if (rc < 0 && rc != -22) rc = -1;
        if (n) xfree(src); else xfree0(src);
        {
            int fr = 0;
            if (rc < 0) {
                if (memcmp(&before, &bb, sizeof bb) != 0) fr = 1;
                if (snap && block && memcmp(snap, block, blocksize) != 0) fr = 1;
            }
            project(ev, rc, fr);
            free(snap);
            return;
        }
    } else if (ev_is(ev, "srcget") || ev_is(ev, "srcgetam")) {
        outn = (size_t)ev->a[0];
        out = outn ? xblock(outn) : xblock0();
        if (outn) memset(out, 0x55, outn);
        Source s;
        source_from_buffer(&s, &bb);
        rc = ev_is(ev, "srcget") ? source_get_chunk(&s, out, outn) : source_get_chunk_atmost(&s, out, outn);
        if (rc < 0 && rc != -22) rc = -1;
        size_t got = rc < 0 ? 0 : (size_t)rc;
        project(ev, rc, 0);
        obs(ev, -7);
        for (size_t i = 0; i < got; i++) obs(ev, out[i]);
        if (outn) xfree(out); else xfree0(out);
        free(snap);
        return;
    } else if (ev_is(ev, "rewind")) {
        rc = byte_buffer_rewind(&bb);
    } else if (ev_is(ev, "clear")) {
        byte_buffer_clear(&bb);
        /* whole block must be zero: report count of non-zero octets as rc */
        for (size_t i = 0; i < blocksize; i++) if (block[i] != 0) rc++;
    } else if (ev_is(ev, "reset")) {
        byte_buffer_reset(&bb);
    } else if (ev_is(ev, "repeat")) {
        byte_buffer_repeat(&bb);
    } else if (ev_is(ev, "avail")) {
        rc = (long long)byte_buffer_avail(&bb); isquery = 1;
    } else if (ev_is(ev, "rest")) {
        rc = (long long)byte_buffer_rest(&bb); isquery = 1;
    } else {
        fprintf(stderr, "bytebuf: unknown op %s\n", ev->name);
        exit(2);
    }

    int frame = 0;
    if (rc < 0 || isquery) {
        if (memcmp(&before, &bb, sizeof bb) != 0) frame = 1;
        if (snap && block && memcmp(snap, block, blocksize) != 0) frame = 1;
    }
    project(ev, (isquery || rc >= 0) ? rc : neg1(rc), frame);
    if (out) {
        obs(ev, -7); /* separator */
        for (size_t i = 0; i < outn; i++) obs(ev, out[i]);
        xfree(out);
    }
    free(snap);
}
