/* Adapter: sliding-window low pass (extra X11, spec/ConvLowPass.tla), instantiated for int and - as a second
 * instantiation that must agree wherever the values are exactly representable - for double.
 *   init len | avg hasmin(0) .. hasmin(len+1) median        update v | the same */
#include <stdio.h>
#include <stdlib.h>
#include <string.h>

#include <ufw/convolution-low-pass.h>

#include "driver.h"

CONV_LOW_PASS_API(ilp, int)
CONV_LOW_PASS(ilp, int)
CONV_LOW_PASS_MEDIAN_API(ilp, int)
CONV_LOW_PASS_MEDIAN(ilp, int)
CONV_LOW_PASS_API(llp, long long)
CONV_LOW_PASS(llp, long long)
CONV_LOW_PASS_MEDIAN_API(llp, long long)
CONV_LOW_PASS_MEDIAN(llp, long long)

const char *adapter_name = "clp";

static ilp w;
static llp wl;
static int *buf, *tmp;
static long long *bufl, *tmpl;
static unsigned int len;

static void drop(void)
{
    if (buf) { xfree(buf); xfree(tmp); xfree(bufl); xfree(tmpl); buf = NULL; }
}
static void observe(Ev *ev)
{
    obs(ev, ilp_avg(&w));
    for (unsigned int c = 0; c <= len + 1; c++) obs(ev, ilp_has_min_values(&w, c) ? 1 : 0);
    memset(tmp, 0x5A, len * sizeof *tmp);
    obs(ev, ilp_median(&w, tmp));
    /* the second instantiation (another element width) must tell the same story */
    int same = llp_avg(&wl) == (long long)ilp_avg(&w);
    for (unsigned int c = 0; c <= len + 1; c++) same = same && llp_has_min_values(&wl, c) == ilp_has_min_values(&w, c);
    same = same && llp_median(&wl, tmpl) == (long long)ilp_median(&w, tmp);
    if (!same) obs(ev, -777);
}

void adapter_exec(Ev *ev)
{
    if (ev_is(ev, "@")) { drop(); return; }
    if (ev_is(ev, "init")) {
        drop();
        len = (unsigned int)ev->a[0];
        buf = xblock(len * sizeof *buf); tmp = xblock(len * sizeof *tmp);
        bufl = xblock(len * sizeof *bufl); tmpl = xblock(len * sizeof *tmpl);
        memset(buf, 0xA5, len * sizeof *buf); memset(bufl, 0xA5, len * sizeof *bufl);
        memset(&w, 0xA5, sizeof w); memset(&wl, 0x5A, sizeof wl);
        ilp_init(&w, buf, len);
        llp_init(&wl, bufl, len);
        observe(ev);
        return;
    }
    if (ev_is(ev, "update")) {
        ilp_update(&w, (int)ev->a[0]);
        llp_update(&wl, ev->a[0]);
        observe(ev);
        return;
    }
    fprintf(stderr, "clp: unknown op %s\n", ev->name);
    exit(2);
}
