/* Adapter: ufw endian codecs (C15).  Vocabulary: spec/Endian.tla. */
#include <stdio.h>
#include <stdlib.h>
#include <string.h>
#include <stdint.h>

#include <ufw/binary-format.h>

#include "driver.h"

const char *adapter_name = "endian";

typedef void *(*SetF)(void *, uint64_t);
typedef uint64_t (*RefF)(const void *);

#define U_T16 uint16_t
#define U_T24 uint32_t
#define U_T32 uint32_t
#define U_T40 uint64_t
#define U_T48 uint64_t
#define U_T56 uint64_t
#define U_T64 uint64_t
#define S_T16 int16_t
#define S_T24 int32_t
#define S_T32 int32_t
#define S_T40 int64_t
#define S_T48 int64_t
#define S_T56 int64_t
#define S_T64 int64_t
#define DEF_U(W, O) \
    static void *set_u##W##O(void *p, uint64_t v) { return bf_set_u##W##O(p, (U_T##W)v); } \
    static uint64_t ref_u##W##O(const void *p) { return (uint64_t)bf_ref_u##W##O(p); }
#define DEF_S(W, O) \
    static void *set_s##W##O(void *p, uint64_t v) { return bf_set_s##W##O(p, (S_T##W)(U_T##W)v); } \
    static uint64_t ref_s##W##O(const void *p) { return (uint64_t)(int64_t)bf_ref_s##W##O(p); }
#define DEF_ALL(W) DEF_U(W, b) DEF_U(W, l) DEF_U(W, n) DEF_S(W, b) DEF_S(W, l) DEF_S(W, n)
DEF_ALL(16) DEF_ALL(24) DEF_ALL(32) DEF_ALL(40) DEF_ALL(48) DEF_ALL(56) DEF_ALL(64)
#define DEF_F32(O) \
    static void *set_f32##O(void *p, uint64_t v) { uint32_t b = (uint32_t)v; float f; memcpy(&f, &b, 4); return bf_set_f32##O(p, f); } \
    static uint64_t ref_f32##O(const void *p) { float f = bf_ref_f32##O(p); uint32_t b; memcpy(&b, &f, 4); return b; }
#define DEF_F64(O) \
    static void *set_f64##O(void *p, uint64_t v) { double f; memcpy(&f, &v, 8); return bf_set_f64##O(p, f); } \
    static uint64_t ref_f64##O(const void *p) { double f = bf_ref_f64##O(p); uint64_t b; memcpy(&b, &f, 8); return b; }
DEF_F32(b) DEF_F32(l) DEF_F32(n) DEF_F64(b) DEF_F64(l) DEF_F64(n)

#define ROW(K, W) { set_##K##W##b, set_##K##W##l, set_##K##W##n }, { ref_##K##W##b, ref_##K##W##l, ref_##K##W##n }
static const struct { int kind, w; SetF set[3]; RefF ref[3]; } TAB[] = {
    { 0, 16, ROW(u, 16) }, { 0, 24, ROW(u, 24) }, { 0, 32, ROW(u, 32) }, { 0, 40, ROW(u, 40) }, { 0, 48, ROW(u, 48) }, { 0, 56, ROW(u, 56) }, { 0, 64, ROW(u, 64) },
    { 1, 16, ROW(s, 16) }, { 1, 24, ROW(s, 24) }, { 1, 32, ROW(s, 32) }, { 1, 40, ROW(s, 40) }, { 1, 48, ROW(s, 48) }, { 1, 56, ROW(s, 56) }, { 1, 64, ROW(s, 64) },
    { 2, 32, ROW(f, 32) }, { 2, 64, ROW(f, 64) },
};
static int find(int kind, int w)
{
    for (size_t i = 0; i < sizeof TAB / sizeof *TAB; i++) if (TAB[i].kind == kind && TAB[i].w == w) return (int)i;
    fprintf(stderr, "endian: no codec kind %d width %d\n", kind, w); exit(2);
}
static uint64_t v8(const long long *a) { uint64_t v = 0; for (int i = 0; i < 8; i++) v = (v << 8) | (uint64_t)(a[i] & 0xff); return v; }
static void put8(Ev *ev, uint64_t v) { for (int i = 7; i >= 0; i--) obs(ev, (long long)((v >> (8 * i)) & 0xff)); }
static uint64_t extend(int kind, int w, uint64_t lanes)
{
    if (w == 64) return lanes;
    uint64_t m = ((uint64_t)1 << w) - 1;
    lanes &= m;
    if (kind == 1 && (lanes >> (w - 1)) & 1) lanes |= ~m;
    return lanes;
}

/* What the target octets held before a store is no concern of the model; the harness varies it: mode 0 the canary, 1 the same
 * value with its top bit flipped (for floats: the other sign, e.g. -0.0 over +0.0), 2 the value itself, 3 zero - each put
 * there by a previous store. */
static void prior(int t, int order, int w, unsigned char *at, int mode, uint64_t v)
{
    if (mode == 1) (void)TAB[t].set[order](at, v ^ ((uint64_t)1 << (w - 1)));
    else if (mode == 2) (void)TAB[t].set[order](at, v);
    else if (mode == 3) (void)TAB[t].set[order](at, 0);
}

/* one value through set + ref at alignment off, checked against the lane map given by the spec */
static int check_one(int t, int order, int kind, int w, const long long *lane, int off, uint64_t v)
{
    int nb = w / 8, bad = 0;
    unsigned char *blk = xblock(24);
    memset(blk, 197, 24);
    prior(t, order, w, blk + off, (int)((v ^ (v >> 9) ^ (uint64_t)off) & 3), v);
    void *ret = TAB[t].set[order](blk + off, v);
    if ((unsigned char *)ret != blk + off + nb) bad = 1;
    for (int i = 0; i < 24; i++) {
        int in = i >= off && i < off + nb;
        if (!in) { if (blk[i] != 197) bad = 1; continue; }
        int ln = (int)lane[i - off];                               /* 1 = most significant lane */
        unsigned char want = (unsigned char)((v >> (8 * (nb - ln))) & 0xff);
        if (blk[i] != want) bad = 1;
    }
    unsigned char *exact = xblock((size_t)nb);
    memcpy(exact, blk + off, (size_t)nb);
    if (TAB[t].ref[order](exact) != extend(kind, w, v)) bad = 1;
    xfree(exact); xfree(blk);
    return bad;
}

void adapter_exec(Ev *ev)
{
    if (ev_is(ev, "@")) return;
    if (ev_is(ev, "set")) {
        int t = find((int)ev->a[0], (int)ev->a[1]), order = (int)ev->a[2], off = (int)ev->a[3];
        unsigned char *blk = xblock(24);
        memset(blk, 197, 24);
        prior(t, order, (int)ev->a[1], blk + off, harness_flavour & 3, v8(ev->a + 4));
        void *ret = TAB[t].set[order](blk + off, v8(ev->a + 4));
        obs(ev, (long long)((unsigned char *)ret - blk));
        for (int i = 0; i < 24; i++) obs(ev, blk[i]);
        xfree(blk);
        return;
    }
    if (ev_is(ev, "ref")) {
        int t = find((int)ev->a[0], (int)ev->a[1]), order = (int)ev->a[2], off = (int)ev->a[3];
        int nb = TAB[t].w / 8;
        unsigned char *blk = xblock((size_t)(off + nb));       /* the datum ends exactly at the end of the block */
        memset(blk, 197, (size_t)(off + nb));
        for (int i = 0; i < nb; i++) blk[off + i] = (unsigned char)ev->a[4 + i];
        put8(ev, TAB[t].ref[order](blk + off));
        xfree(blk);
        return;
    }
    if (ev_is(ev, "swap")) {
        uint64_t v = v8(ev->a + 1), r;
        switch ((int)ev->a[0]) {
        case 16: r = bf_swap16((uint16_t)v); break;
        case 24: r = bf_swap24((uint32_t)v & 0xffffffu); break;
        case 32: r = bf_swap32((uint32_t)v); break;
        case 40: r = bf_swap40(v & 0xffffffffffull); break;
        case 48: r = bf_swap48(v & 0xffffffffffffull); break;
        case 56: r = bf_swap56(v & 0xffffffffffffffull); break;
        default: r = bf_swap64(v); break;
        }
        put8(ev, r);
        return;
    }
    if (ev_is(ev, "inrange")) {
        int kind = (int)ev->a[0], w = (int)ev->a[1];
        uint64_t v = v8(ev->a + 2);
        int r;
        if (kind == 0) r = w == 24 ? ((v >> 32) == 0 && bf_inrange_u24((uint32_t)v)) : w == 40 ? bf_inrange_u40(v) : w == 48 ? bf_inrange_u48(v) : bf_inrange_u56(v);
        else {
            int64_t s = (int64_t)v;
            r = w == 24 ? ((s >= INT32_MIN && s <= INT32_MAX) && bf_inrange_s24((int32_t)s)) : w == 40 ? bf_inrange_s40(s) : w == 48 ? bf_inrange_s48(s) : bf_inrange_s56(s);
        }
        obs(ev, r ? 1 : 0);
        return;
    }
    if (ev_is(ev, "sweep")) {
        /* sweep kind width order n lane.. [mode]: mode 0 = lanes x 256, single bits, boundaries, 16-bit exhaustive;
         * mode 1 = additionally every value of the low 24 bits; mode 2 = every 32-bit value (w <= 32) */
        int kind = (int)ev->a[0], w = (int)ev->a[1], order = (int)ev->a[2], nb = (int)ev->a[3];
        const long long *lane = ev->a + 4;
        int mode = ev->na > 4 + nb ? (int)ev->a[4 + nb] : 0;
        /* optional: part nparts - the exhaustive range is cut into nparts slices, this call does slice `part` */
        uint64_t part = ev->na > 6 + nb ? (uint64_t)ev->a[5 + nb] : 0, nparts = ev->na > 6 + nb ? (uint64_t)ev->a[6 + nb] : 1;
        int t = find(kind, w);
        long long bad = 0;
        uint64_t count = 0;
        uint64_t mask = w == 64 ? ~(uint64_t)0 : (((uint64_t)1 << w) - 1);
        const uint64_t tok = 0x1122334455667788ull;
        for (int l = 0; l < nb; l++)
            for (uint64_t x = 0; x < 256; x++, count++)
                bad += check_one(t, order, kind, w, lane, (int)(count % 8), ((tok & ~((uint64_t)0xff << (8 * l))) | (x << (8 * l))) & mask);
        for (int b = 0; b < w; b++, count += 2) {
            bad += check_one(t, order, kind, w, lane, b % 8, (uint64_t)1 << b);
            bad += check_one(t, order, kind, w, lane, (b + 3) % 8, ~((uint64_t)1 << b) & mask);
        }
        uint64_t lim = (w == 16 || mode == 0) ? 65536 : (mode == 1 ? ((uint64_t)1 << 24) : ((uint64_t)1 << (w < 32 ? w : 32)));
        for (uint64_t x = part * (lim / nparts), xe = (part + 1 == nparts) ? lim : (part + 1) * (lim / nparts); x < xe; x++, count++, ((x & 0xfff) == 0 ? driver_kick() : (void)0))
            bad += check_one(t, order, kind, w, lane, (int)(x % 8), (x | (w > 16 ? (x << (w - 16)) : 0)) & mask);
        uint64_t r = 0x9E3779B97F4A7C15ull ^ ((uint64_t)kind << 40) ^ ((uint64_t)w << 20) ^ (uint64_t)order;
        for (int i = 0; i < 20000; i++, count++) {
            r ^= r << 13; r ^= r >> 7; r ^= r << 17;
            bad += check_one(t, order, kind, w, lane, (int)(r % 8), r & mask);
        }
        obs(ev, bad);
        return;
    }
    fprintf(stderr, "endian: unknown op %s\n", ev->name);
    exit(2);
}
