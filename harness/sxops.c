/* Adapter: s-expression tree operations (extra X07, spec/SxOps.tla).  Slots are 1-based.
 * Observation: <result> -7 <flattened slots> [-5 <octets still allocated>]  (the latter whenever all slots are empty)
 */
#include <stdio.h>
#include <stdlib.h>
#include <string.h>
#include <stdint.h>

#include <ufw/sx.h>

#include "driver.h"

const char *adapter_name = "sxops";
size_t __sanitizer_get_current_allocated_bytes(void);

#define NS 4
static struct sx_node *slot[NS + 1];
static size_t baseline;

static void flat(Ev *ev, struct sx_node *n, int depth)
{
    if (n == NULL) { obs(ev, -1); return; }
    if (depth > 64) { obs(ev, -97); return; }
    switch (n->type) {
    case SXT_EMPTY_LIST: obs(ev, 0); break;
    case SXT_SYMBOL: {
        size_t l = strlen(n->data.symbol);
        obs(ev, 1); obs(ev, (long long)l);
        for (size_t i = 0; i < l; i++) obs(ev, (unsigned char)n->data.symbol[i]);
        break; }
    case SXT_INTEGER: obs(ev, 2); obs(ev, (long long)n->data.u64); break;
    case SXT_PAIR: obs(ev, 4); flat(ev, n->data.pair->car, depth + 1); flat(ev, n->data.pair->cdr, depth + 1); break;
    default: obs(ev, -98);
    }
}
static void state(Ev *ev, int nslots)
{
    obs(ev, -7);
    int empty = 1;
    for (int i = 1; i <= nslots; i++) { flat(ev, slot[i], 0); if (slot[i]) empty = 0; }
    if (empty) { obs(ev, -5); obs(ev, (long long)(__sanitizer_get_current_allocated_bytes() - baseline)); }
}
static Ev *fe_ev;
static struct sx_node *fe_cb(struct sx_node *n, void *arg) { (void)arg; flat(fe_ev, n, 0); obs(fe_ev, -6); return n; }

static int nslots = 2;

void adapter_exec(Ev *ev)
{
    if (ev_is(ev, "@")) {
        for (int i = 1; i <= NS; i++) if (slot[i]) sx_destroy(&slot[i]);
        baseline = __sanitizer_get_current_allocated_bytes();
        return;
    }
    if (ev_is(ev, "nslots")) { nslots = (int)ev->a[0]; obs(ev, 0); return; }
    int i = (int)ev->a[0], j = ev->na > 1 ? (int)ev->a[1] : 0;
    if (i < 1 || i > NS || j < 0 || j > NS) { obs(ev, -999); return; }
    if (ev_is(ev, "make")) {
        switch (ev->a[1]) {
        case 0: slot[i] = sx_make_empty_list(); break;
        case 1: {
            size_t l = (size_t)ev->a[2];
            char *z = xblock(l + 1);
            for (size_t k = 0; k < l; k++) z[k] = (char)ev->a[3 + k];
            z[l] = 0;
            slot[i] = sx_make_symbol(z);
            xfree(z);
            break; }
        default: slot[i] = sx_make_integer((uint64_t)ev->a[2]); break;
        }
        obs(ev, slot[i] ? 0 : 1);
    } else if (ev_is(ev, "cons")) {
        slot[i] = sx_cons(slot[i], slot[j]);
        slot[j] = NULL;
        obs(ev, slot[i] ? 0 : 1);
    } else if (ev_is(ev, "pop")) {
        struct sx_node *r = sx_pop(&slot[i]);
        slot[j] = r;
        obs(ev, r ? 0 : 1);
    } else if (ev_is(ev, "append")) {
        struct sx_node *r = sx_append(slot[i], slot[j]);
        if (r) { slot[i] = r; slot[j] = NULL; }
        obs(ev, r ? 0 : 1);
    } else if (ev_is(ev, "cxr")) {
        size_t l = (size_t)ev->a[1];
        char *z = xblock(l + 1);
        for (size_t k = 0; k < l; k++) z[k] = (char)ev->a[2 + k];
        z[l] = 0;
        flat(ev, sx_cxr(slot[i], z), 0);
        xfree(z);
    } else if (ev_is(ev, "islist")) {
        obs(ev, sx_is_list(slot[i]) ? 1 : 0);
    } else if (ev_is(ev, "foreach")) {
        fe_ev = ev;
        sx_foreach(slot[i], fe_cb, NULL);
    } else if (ev_is(ev, "destroy")) {
        sx_destroy(&slot[i]);
        obs(ev, slot[i] == NULL ? 0 : 1);
    } else { obs(ev, -999); return; }
    state(ev, nslots);
}
