/* Adapter: ufw s-expression reader (C20).  Vocabulary: spec/Sx.tla.
 *   parse n c1..cn | 0 pos leak agree <flattened tree>   or   1 leak agree
 * The text is presented twice: NUL-terminated (sx_parse_string) and length-delimited on an exact-size heap
 * block without terminator (sx_parse_stringn); ASan reports any read outside the n octets.
 */
#include <stdio.h>
#include <stdlib.h>
#include <string.h>
#include <stdint.h>

#include <ufw/sx.h>

#include "driver.h"

const char *adapter_name = "sx";

size_t __sanitizer_get_current_allocated_bytes(void);

static long long flat[MAXV];
static int nflat;
static void put(long long v) { if (nflat < MAXV) flat[nflat++] = v; }

static int list_len(struct sx_node *n)
{
    int k = 0;
    while (n && n->type == SXT_PAIR) { k++; n = n->data.pair->cdr; }
    return (n && n->type == SXT_EMPTY_LIST) ? k : -1 - k;    /* negative: improper / broken list */
}
static void flatten(struct sx_node *n, int depth)
{
    if (n == NULL || depth > 64) { put(-99); return; }
    switch (n->type) {
    case SXT_SYMBOL: {
        size_t l = strlen(n->data.symbol);
        put(1); put((long long)l);
        for (size_t i = 0; i < l; i++) put((unsigned char)n->data.symbol[i]);
        break; }
    case SXT_INTEGER:
        put(2);
        for (int k = 3; k >= 0; k--) put((long long)((n->data.u64 >> (16 * k)) & 0xffff));
        break;
    case SXT_EMPTY_LIST:
        put(3); put(0);
        break;
    case SXT_PAIR: {
        int k = list_len(n);
        put(3); put(k);
        while (n && n->type == SXT_PAIR) { flatten(n->data.pair->car, depth + 1); n = n->data.pair->cdr; }
        break; }
    default:
        put(-98);
    }
}

void adapter_exec(Ev *ev)
{
    if (ev_is(ev, "@")) return;
    if (!ev_is(ev, "parse")) { fprintf(stderr, "sx: unknown op %s\n", ev->name); exit(2); }
    size_t n = (size_t)ev->a[0];
    char *z = xblock(n + 1);
    for (size_t i = 0; i < n; i++) z[i] = (char)ev->a[1 + i];
    z[n] = 0;
    char *x = n ? xblock(n) : xblock0();
    if (n) memcpy(x, z, n);

    /* length-delimited presentation */
    size_t before = __sanitizer_get_current_allocated_bytes();
    struct sx_parse_result r = sx_parse_stringn(x, n);
    long long status = r.status == SXS_SUCCESS ? 0 : 1;
    if (status == 1 && r.node != NULL) status = 2;           /* error status but a tree was returned */
    if (status == 0 && r.node == NULL) status = 3;           /* success status without a tree */
    nflat = 0;
    if (status == 0) flatten(r.node, 0);
    long long pos = (long long)r.position;
    sx_destroy(&r.node);
    long long leak = (long long)(__sanitizer_get_current_allocated_bytes() - before);

    /* NUL-terminated presentation must agree */
    static long long flat1[MAXV];
    int nflat1 = nflat;
    memcpy(flat1, flat, sizeof(long long) * (size_t)nflat);
    int agree = 1;
    if (memchr(z, 0, n) == NULL) {
        struct sx_parse_result q = sx_parse_string(z);
        long long st2 = q.status == SXS_SUCCESS ? 0 : 1;
        if (st2 == 1 && q.node != NULL) st2 = 2;
        if (st2 == 0 && q.node == NULL) st2 = 3;
        nflat = 0;
        if (st2 == 0) flatten(q.node, 0);
        if (st2 != status || (st2 == 0 && ((long long)q.position != pos || nflat != nflat1 || memcmp(flat, flat1, sizeof(long long) * (size_t)nflat) != 0))) agree = 0;
        sx_destroy(&q.node);
    }
    /* third presentation: the same n octets embedded in a larger buffer, directly followed by characters that
     * would extend a token (digit, hex letter, symbol character): a reader that looks past n sees a different text */
    {
        static const char tail[] = "7fA(";
        char *emb = xblock(n + sizeof tail);
        memcpy(emb, z, n);
        memcpy(emb + n, tail, sizeof tail);
        struct sx_parse_result q = sx_parse_stringn(emb, n);
        long long st3 = q.status == SXS_SUCCESS ? 0 : 1;
        if (st3 == 1 && q.node != NULL) st3 = 2;
        if (st3 == 0 && q.node == NULL) st3 = 3;
        nflat = 0;
        if (st3 == 0) flatten(q.node, 0);
        if (st3 != status || (st3 == 0 && ((long long)q.position != pos || nflat != nflat1 || memcmp(flat, flat1, sizeof(long long) * (size_t)nflat) != 0))) agree = 0;
        sx_destroy(&q.node);
        xfree(emb);
    }
    /* fourth presentation: the text behind three other characters, parsed with a start index (sx_parse(s, n, i)):
     * same status and tree, position shifted by the start index */
    {
        static const char head[] = "(7 ";
        size_t k = sizeof head - 1;
        char *sh = xblock(n + k);
        memcpy(sh, head, k);
        memcpy(sh + k, z, n);
        struct sx_parse_result q = sx_parse(sh, n + k, k);
        long long st4 = q.status == SXS_SUCCESS ? 0 : 1;
        if (st4 == 1 && q.node != NULL) st4 = 2;
        if (st4 == 0 && q.node == NULL) st4 = 3;
        nflat = 0;
        if (st4 == 0) flatten(q.node, 0);
        if (st4 != status || (st4 == 0 && ((long long)q.position != pos + (long long)k || nflat != nflat1 || memcmp(flat, flat1, sizeof(long long) * (size_t)nflat) != 0))) agree = 0;
        sx_destroy(&q.node);
        xfree(sh);
    }
    obs(ev, status);
    if (status == 0) obs(ev, pos);
    obs(ev, leak);
    obs(ev, agree);
    if (status == 0) for (int i = 0; i < nflat1; i++) obs(ev, flat1[i]);
    if (n) xfree(x); else xfree0(x);
    xfree(z);
}
