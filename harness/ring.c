/* Adapter: ufw ring buffer (C19).  Instantiations: octet_ring (library) and a uint32_t ring
 * generated here from the same macros.  Observation after every call:
 *   ret size empty full  n1 <old-to-new>  n2 <new-to-old>
 */
#include <stdio.h>
#include <stdlib.h>
#include <string.h>
#include <stdint.h>

#include <ufw/octet-ring.h>
#include <ufw/ring-buffer.h>
#include <ufw/ring-buffer-iter.h>

#include "driver.h"

RING_BUFFER_API(u32_ring, uint32_t)
RING_BUFFER_ITER_API(u32_ring, uint32_t)
RING_BUFFER(u32_ring, uint32_t)
RING_BUFFER_ITER(u32_ring, uint32_t)
/* ... and a ring of doubles (ty 64): element x travels as x + 0.5, so that an element type that is not an integer is seen as such */
RING_BUFFER_API(f64_ring, double)
RING_BUFFER_ITER_API(f64_ring, double)
RING_BUFFER(f64_ring, double)
RING_BUFFER_ITER(f64_ring, double)
static double enc64(long long x) { return (double)x + 0.5; }
static long long dec64(double d)
{
    if (d == 0.0) return 0;                       /* "zero when empty" */
    double t = 2.0 * d;
    long long k = (long long)t;
    return ((double)k == t && (k & 1)) ? (k - 1) / 2 : -999;
}

const char *adapter_name = "ring";

static int ty = 0;
static size_t cap = 0;
static octet_ring r8;
static u32_ring r32;
static f64_ring r64;
static void *block = NULL;

static void project(Ev *ev, long long ret)
{
    rb_iter it;
    obs(ev, ret);
    if (ty == 8) {
        obs(ev, (long long)octet_ring_size(&r8));
        obs(ev, octet_ring_empty(&r8));
        obs(ev, octet_ring_full(&r8));
    } else if (ty == 64) {
        obs(ev, (long long)f64_ring_size(&r64));
        obs(ev, f64_ring_empty(&r64));
        obs(ev, f64_ring_full(&r64));
    } else {
        obs(ev, (long long)u32_ring_size(&r32));
        obs(ev, u32_ring_empty(&r32));
        obs(ev, u32_ring_full(&r32));
    }
    for (int dir = 0; dir < 2; dir++) {
        rb_iter_mode m = dir == 0 ? RING_BUFFER_ITER_OLD_TO_NEW : RING_BUFFER_ITER_NEW_TO_OLD;
        int at = ev->no;
        long long n = 0;
        obs(ev, 0);
        if (ty == 8) octet_ring_iter(&it, &r8, m); else if (ty == 64) f64_ring_iter(&it, &r64, m); else u32_ring_iter(&it, &r32, m);
        while (!rb_iter_done(&it) && n <= (long long)cap + 2) {
            obs(ev, ty == 8 ? (long long)octet_ring_inspect(&r8, &it) : ty == 64 ? dec64(f64_ring_inspect(&r64, &it)) : (long long)u32_ring_inspect(&r32, &it));
            rb_iter_advance(&it);
            n++;
        }
        ev->o[at] = n;
    }
}

void adapter_exec(Ev *ev)
{
    long long ret = 0;
    if (ev_is(ev, "@")) {
        if (block) xfree(block);
        block = NULL; ty = 0; cap = 0;
        return;
    }
    if (ev_is(ev, "init")) {
        if (block) xfree(block);
        cap = (size_t)ev->a[0];
        ty = (int)ev->a[1];
        if (ty == 8) {
            block = xblock(cap);
            memset(block, 0xee, cap);
            octet_ring_init(&r8, block, cap);
        } else if (ty == 64) {
            block = xblock(cap * sizeof(double));
            memset(block, 0xee, cap * sizeof(double));
            f64_ring_init(&r64, block, cap);
        } else {
            block = xblock(cap * sizeof(uint32_t));
            memset(block, 0xee, cap * sizeof(uint32_t));
            u32_ring_init(&r32, block, cap);
        }
    } else if (ev_is(ev, "put")) {
        if (ty == 8) octet_ring_put(&r8, (uint8_t)ev->a[0]); else if (ty == 64) f64_ring_put(&r64, enc64(ev->a[0])); else u32_ring_put(&r32, (uint32_t)ev->a[0]);
    } else if (ev_is(ev, "fill")) {
        for (long long i = 0; i < ev->a[0]; i++) {
            long long x = (ev->a[1] + i) % 251;
            if (ty == 8) octet_ring_put(&r8, (uint8_t)x); else if (ty == 64) f64_ring_put(&r64, enc64(x)); else u32_ring_put(&r32, (uint32_t)x);
        }
    } else if (ev_is(ev, "get")) {
        ret = ty == 8 ? (long long)octet_ring_get(&r8) : ty == 64 ? dec64(f64_ring_get(&r64)) : (long long)u32_ring_get(&r32);
    } else if (ev_is(ev, "clear")) {
        if (ty == 8) octet_ring_clear(&r8); else if (ty == 64) f64_ring_clear(&r64); else u32_ring_clear(&r32);
    } else if (ev_is(ev, "override")) {
        if (ty == 8) octet_ring_override_if_full(&r8, ev->a[0] != 0); else if (ty == 64) f64_ring_override_if_full(&r64, ev->a[0] != 0); else u32_ring_override_if_full(&r32, ev->a[0] != 0);
    } else {
        fprintf(stderr, "ring: unknown op %s\n", ev->name);
        exit(2);
    }
    project(ev, ret);
}
