/* Adapter: ufw register table (C01-C05).  Vocabulary: spec/RegTable.tla.
 *   tinit be na {base size rd wr skip hasw kind} nr {ty addr ck lo[4] hi[4] def[4]}
 *         | code index  [ {first last count} -7 image ]        (links/image only on success)
 *   set h unsafe ty v[4]      | code image            code: 0, 1 refused, 2 uninitialised, 3 no such entry
 *   get h                     | code [ty v...]
 *   bitset/bitclr h ty v[4]   | code image
 *   bwrite addr n w..         | code addr image -7 touched      code: 0, 3 unmapped, 4 range, 5 invalid, 6 read-only
 *   bread addr n              | code addr w..
 *   foreach addr off ns s..   | code addr handles..
 *   sanitise                  | code image -7 touched
 *   corrupt addr w            | 0 image
 * Values: 4 words, most significant first, right aligned.  Image words are atoms read in table byte order.
 */
#include <stdio.h>
#include <stdlib.h>
#include <string.h>
#include <stdint.h>

#include <errno.h>
#include <ufw/allocator.h>
#include <ufw/endpoints.h>
#include <ufw/register-protocol.h>
#include <ufw/crc/crc16-arc.h>
#include <ufw/persistent-storage.h>
#include <ufw/register-table.h>

#include "driver.h"

const char *adapter_name = "regtab";

#define MAXA 8
#define MAXR 32
static RegisterTable T;
static RegisterArea *areas = NULL;
static RegisterEntry *entries = NULL;
static RegisterAtom *store[MAXA];   /* exact-size storage per area (memory- and callback-backed alike) */
static int na, nr, be, have = 0;
static struct { long long base, size, rd, wr, skip, hasw, kind; } A[MAXA];
static long long canary_hits = 0;

/* A callback-backed area may do book-keeping through the typed API from inside its callbacks (the accessors are expected to be
 * re-entrant): every second callback call reads some register first.  (A callback area that also sets .mem is not a
 * configuration the library supports: register_mcopy() takes a non-NULL .mem for the area's storage on the unchanged tree.) */
static int cb_depth, in_init;    /* (no nesting while the table is being initialised: its registers are only partly linked then) */
static unsigned cb_calls;
static RegisterAtom *decoy[MAXA];
static void cb_nested(int writing)
{
    if (cb_depth == 0 && have && !in_init && nr > 0 && (cb_calls++ % 2) == 0) {
        RegisterValue tmp;
        RegisterHandle h = (RegisterHandle)(cb_calls % (unsigned)nr);
        cb_depth++;
        RegisterAccess r = register_get(&T, h, &tmp);
        /* from a write callback also store the value just read back again (no change of state) */
        if (writing && r.code == REG_ACCESS_SUCCESS) (void)register_set(&T, h, tmp);
        cb_depth--;
    }
}
static RegisterAccess cb_read(const RegisterArea *a, RegisterAtom *dst, RegisterOffset off, RegisterOffset n)
{
    RegisterAccess rv = REG_ACCESS_RESULT_INIT;
    int i = (int)(a - areas);
    cb_nested(0);
    memcpy(dst, store[i] + off, n * sizeof(RegisterAtom));
    return rv;
}
static RegisterAccess cb_write(RegisterArea *a, const RegisterAtom *src, RegisterOffset off, RegisterOffset n)
{
    RegisterAccess rv = REG_ACCESS_RESULT_INIT;
    int i = (int)(a - areas);
    cb_nested(1);
    memcpy(store[i] + off, src, n * sizeof(RegisterAtom));
    return rv;
}
/* ---- area kind 2: storage is a checksummed persistent-storage instance on a medium (composition X04) */
static PersistentStorage PS;
static unsigned char *ps_medium = NULL;
static size_t ps_msize = 0;
static int ps_area = -1;
static long long ps_oob = 0;
static size_t ps_rd(void *dst, uint32_t a, size_t n)
{
    if ((size_t)a + n > ps_msize) { ps_oob++; return 0; }
    memcpy(dst, ps_medium + a, n);
    return n;
}
static size_t ps_wr(uint32_t a, const void *src, size_t n)
{
    if ((size_t)a + n > ps_msize) { ps_oob++; return 0; }
    memcpy(ps_medium + a, src, n);
    return n;
}
static uint16_t ps_crc(const unsigned char *d, size_t n, uint16_t init) { return ufw_crc16_arc(init, d, n); }
static RegisterAccess ps_map(const RegisterArea *a, RegisterOffset o, PersistentAccess pa)
{
    RegisterAccess rv = REG_ACCESS_RESULT_INIT;
    if (pa == PERSISTENT_ACCESS_SUCCESS) return rv;
    rv.code = pa == PERSISTENT_ACCESS_INVALID_DATA ? REG_ACCESS_INVALID : pa == PERSISTENT_ACCESS_IO_ERROR ? REG_ACCESS_IO_ERROR : REG_ACCESS_RANGE;
    rv.address = a->base + o;
    return rv;
}
static RegisterAccess ps_read(const RegisterArea *a, RegisterAtom *dst, RegisterOffset off, RegisterOffset n)
{
    return ps_map(a, off, persistent_fetch_part(dst, &PS, (size_t)off * sizeof(RegisterAtom), (size_t)n * sizeof(RegisterAtom)));
}
static RegisterAccess ps_write(RegisterArea *a, const RegisterAtom *src, RegisterOffset off, RegisterOffset n)
{
    return ps_map(a, off, persistent_store_part(&PS, src, (size_t)off * sizeof(RegisterAtom), (size_t)n * sizeof(RegisterAtom)));
}
/* the logical storage of a persistent-backed area is the data section on the medium */
static void ps_sync(void)
{
    if (ps_area >= 0) memcpy(store[ps_area], ps_medium + 3 + 2, (size_t)A[ps_area].size * sizeof(RegisterAtom));
}

static bool validator(const RegisterEntry *e, RegisterValue v)
{
    uint64_t bits = 0;
    switch (e->type) {
    case REG_TYPE_UINT16: bits = v.value.u16; break;
    case REG_TYPE_SINT16: bits = (uint16_t)v.value.s16; break;
    case REG_TYPE_UINT32: bits = v.value.u32; break;
    case REG_TYPE_SINT32: bits = (uint32_t)v.value.s32; break;
    case REG_TYPE_UINT64: bits = v.value.u64; break;
    case REG_TYPE_SINT64: bits = (uint64_t)v.value.s64; break;
    case REG_TYPE_FLOAT32: { uint32_t b; memcpy(&b, &v.value.f32, 4); bits = b; break; }
    case REG_TYPE_FLOAT64: memcpy(&bits, &v.value.f64, 8); break;
    default: break;
    }
    return (bits & 0xffffu) != 1u;
}
static const RegisterType tymap[8] = { REG_TYPE_UINT16, REG_TYPE_UINT32, REG_TYPE_UINT64, REG_TYPE_SINT16,
                                       REG_TYPE_SINT32, REG_TYPE_SINT64, REG_TYPE_FLOAT32, REG_TYPE_FLOAT64 };
static const int tysize[8] = { 1, 2, 4, 1, 2, 4, 2, 4 };
static int tyindex(RegisterType t) { for (int i = 0; i < 8; i++) if (tymap[i] == t) return i; return -1; }

static RegisterValueU mkval(int ty, const long long *w4)
{
    RegisterValueU u;
    memset(&u, 0, sizeof u);
    uint64_t bits = 0;
    for (int i = 4 - tysize[ty]; i < 4; i++) bits = (bits << 16) | (uint64_t)(w4[i] & 0xffff);
    switch (ty) {
    case 0: u.u16 = (uint16_t)bits; break;
    case 1: u.u32 = (uint32_t)bits; break;
    case 2: u.u64 = bits; break;
    case 3: u.s16 = (int16_t)(uint16_t)bits; break;
    case 4: u.s32 = (int32_t)(uint32_t)bits; break;
    case 5: u.s64 = (int64_t)bits; break;
    case 6: { uint32_t b = (uint32_t)bits; memcpy(&u.f32, &b, 4); break; }
    case 7: memcpy(&u.f64, &bits, 8); break;
    }
    return u;
}
static void putval(Ev *ev, int ty, RegisterValueU u)
{
    uint64_t bits = 0;
    switch (ty) {
    case 0: bits = u.u16; break;
    case 1: bits = u.u32; break;
    case 2: bits = u.u64; break;
    case 3: bits = (uint16_t)u.s16; break;
    case 4: bits = (uint32_t)u.s32; break;
    case 5: bits = (uint64_t)u.s64; break;
    case 6: { uint32_t b; memcpy(&b, &u.f32, 4); bits = b; break; }
    case 7: memcpy(&bits, &u.f64, 8); break;
    }
    for (int i = tysize[ty] - 1; i >= 0; i--) obs(ev, (long long)((bits >> (16 * i)) & 0xffff));
}
static uint32_t SH = 0;      /* address shift (event abase) */
#define UNSH(x) ((long long)(uint32_t)((uint32_t)(x) - SH))
static long long atom2word(RegisterAtom a)
{
    unsigned char o[2];
    memcpy(o, &a, 2);
    return be ? ((long long)o[0] << 8) | o[1] : ((long long)o[1] << 8) | o[0];
}
static RegisterAtom word2atom(long long w)
{
    unsigned char o[2];
    if (be) { o[0] = (unsigned char)(w >> 8); o[1] = (unsigned char)w; } else { o[1] = (unsigned char)(w >> 8); o[0] = (unsigned char)w; }
    RegisterAtom a;
    memcpy(&a, o, 2);
    return a;
}
static void image(Ev *ev)
{
    ps_sync();
    for (int i = 0; i < na; i++)
        for (long long k = 0; k < A[i].size; k++) obs(ev, atom2word(store[i][k]));
}
static void touchvec(Ev *ev)
{
    for (int j = 0; j < nr; j++) obs(ev, register_was_touched(&T, (RegisterHandle)j) ? 1 : 0);
}
static long long cls(RegisterAccessCode c)
{
    switch (c) {
    case REG_ACCESS_SUCCESS: return 0;
    case REG_ACCESS_UNINITIALISED: return 2;
    case REG_ACCESS_NOENTRY: return 3;
    default: return 1;
    }
}
static long long bcls(RegisterAccessCode c)
{
    switch (c) {
    case REG_ACCESS_SUCCESS: return 0;
    case REG_ACCESS_UNINITIALISED: return 2;
    case REG_ACCESS_NOENTRY: return 3;
    case REG_ACCESS_RANGE: return 4;
    case REG_ACCESS_INVALID: return 5;
    case REG_ACCESS_READONLY: return 6;
    default: return 1;
    }
}
#include "gen/macro_table.inc"
static int is_macro;
static void drop(void)
{
    if (!have) return;
    if (is_macro) {
        for (int i = 0; i < na; i++) { if (store[i] && A[i].kind == 1) xfree(store[i]); store[i] = NULL; }
        areas = NULL; entries = NULL; have = 0; na = nr = 0; is_macro = 0;
        return;
    }
    for (int i = 0; i < na; i++) if (store[i]) { xfree(store[i]); store[i] = NULL; }
    for (int i = 0; i < MAXA; i++) if (decoy[i]) { xfree(decoy[i]); decoy[i] = NULL; }
    xfree(areas); xfree(entries);
    areas = NULL; entries = NULL; have = 0; na = nr = 0;
}

static struct { long long s[64]; int n, k; long long seen[64]; int nseen; } FE;
static int fe_cb(RegisterTable *t, RegisterHandle h, void *arg)
{
    (void)t; (void)arg;
    if (FE.nseen < 64) FE.seen[FE.nseen++] = (long long)h;
    long long r = FE.k < FE.n ? FE.s[FE.k] : 0;
    FE.k++;
    return (int)r;
}

/* ---- protocol server on the table (composition, spec/RegServer.tla) */
static unsigned char srv_out[1 << 14];
static size_t srv_outn;
static ssize_t srv_sink(void *d, const void *b, size_t n)
{
    (void)d;
    if (srv_outn + n > sizeof srv_out) return -ENOMEM;
    memcpy(srv_out + srv_outn, b, n); srv_outn += n;
    return (ssize_t)n;
}
typedef struct { const unsigned char *p; size_t n, pos; } SrvArr;
static int srv_src(void *d, void *o)
{
    SrvArr *a = d;
    if (a->pos >= a->n) return -ENODATA;
    *(unsigned char *)o = a->p[a->pos++];
    return 1;
}
static RPBlockAccess srv_read(uint32_t a, size_t n, uint16_t *buf)
{
    return regaccess2blockaccess(register_block_read(&T, a, (RegisterOffset)n, buf));
}
static RPBlockAccess srv_write(uint32_t a, size_t n, const uint16_t *buf)
{
    return regaccess2blockaccess(register_block_write(&T, a, (RegisterOffset)n, (RegisterAtom *)(uintptr_t)buf));
}

void adapter_exec(Ev *ev)
{
    if (ev_is(ev, "@")) { drop(); SH = 0; return; }
    if (ev_is(ev, "abase")) {
        /* the model's address space is translation invariant: from the next tinit on, model address a is a + SH in the library */
        SH = ((uint32_t)ev->a[0] << 16) | (uint32_t)ev->a[1];
        obs(ev, 0);
        return;
    }
    if (ev_is(ev, "tinit")) {
        drop();
        int p = 0;
        ps_area = -1; ps_oob = 0;
        be = (int)ev->a[p++];
        na = (int)ev->a[p++];
        int nr_hint = (int)ev->a[2 + 7 * na];
        areas = xblock(sizeof(RegisterArea) * (size_t)(na + 1));
        memset(areas, 0, sizeof(RegisterArea) * (size_t)(na + 1));
        for (int i = 0; i < na; i++) {
            A[i].base = ev->a[p++]; A[i].size = ev->a[p++]; A[i].rd = ev->a[p++]; A[i].wr = ev->a[p++];
            A[i].skip = ev->a[p++]; A[i].hasw = ev->a[p++]; A[i].kind = ev->a[p++];
            store[i] = xblock(sizeof(RegisterAtom) * (size_t)A[i].size);
            memset(store[i], 0x77, sizeof(RegisterAtom) * (size_t)A[i].size);  /* init must zero memory areas */
            memset(&areas[i].entry, 0x5A, sizeof areas[i].entry);      /* what init records per area must not depend on what was there */
            areas[i].base = (RegisterAddress)A[i].base + SH;
            areas[i].size = (RegisterOffset)A[i].size;
            areas[i].flags = (uint16_t)((A[i].rd ? REG_AF_READABLE : 0) | (A[i].wr ? REG_AF_WRITEABLE : 0) | (A[i].skip ? REG_AF_SKIP_DEFAULTS : 0));
            if (A[i].kind == 4) {
                /* kind 4: a placeholder - zero size, no functions, no memory - at a non-zero base (only the base tells it from the end mark) */
                areas[i].mem = NULL; areas[i].read = NULL; areas[i].write = NULL;
            } else if (A[i].kind == 0 || A[i].kind == 3) {
                areas[i].mem = store[i];
                areas[i].read = A[i].kind == 3 ? NULL : reg_mem_read;      /* kind 3: an area without a read function (write-only device) */
                areas[i].write = A[i].hasw ? reg_mem_write : NULL;
            } else if (A[i].kind == 2) {
                /* checksummed persistent storage at medium address 3 (CRC-16/ARC, 2 octets), valid all-zero image to start with */
                ps_area = i;
                ps_msize = 3 + 2 + sizeof(RegisterAtom) * (size_t)A[i].size + 3;
                if (ps_medium) xfree(ps_medium);
                ps_medium = xblock(ps_msize);
                memset(ps_medium, 0xee, ps_msize);
                persistent_init(&PS, sizeof(RegisterAtom) * (size_t)A[i].size, ps_rd, ps_wr);
                persistent_sum16(&PS, ps_crc, 0);
                persistent_place(&PS, 3);
                memset(store[i], 0, sizeof(RegisterAtom) * (size_t)A[i].size);
                (void)persistent_store(&PS, store[i]);
                areas[i].mem = NULL;
                areas[i].read = ps_read;
                areas[i].write = A[i].hasw ? ps_write : NULL;
            } else {
                memset(store[i], 0, sizeof(RegisterAtom) * (size_t)A[i].size); /* callback storage: the harness' own, starts at zero */
                areas[i].mem = NULL;
                (void)nr_hint;
                areas[i].read = cb_read;
                areas[i].write = A[i].hasw ? cb_write : NULL;
            }
        }
        /* sentinel: REGISTER_AREA_END */
        nr = (int)ev->a[p++];
        entries = xblock(sizeof(RegisterEntry) * (size_t)(nr + 1));
        memset(entries, 0, sizeof(RegisterEntry) * (size_t)(nr + 1));
        for (int j = 0; j < nr; j++) {
            int ty = (int)ev->a[p++];
            entries[j].type = tymap[ty];
            entries[j].address = (RegisterAddress)ev->a[p++] + SH;
            int ck = (int)ev->a[p++];
            const long long *lo = ev->a + p; p += 4;
            const long long *hi = ev->a + p; p += 4;
            const long long *df = ev->a + p; p += 4;
            entries[j].default_value = mkval(ty, df);
            switch (ck) {
            case 0: entries[j].check.type = REGV_TYPE_TRIVIAL; break;
            case 1: entries[j].check.type = REGV_TYPE_FAIL; break;
            case 2: entries[j].check.type = REGV_TYPE_MIN; entries[j].check.arg.min = mkval(ty, lo); break;
            case 3: entries[j].check.type = REGV_TYPE_MAX; entries[j].check.arg.max = mkval(ty, hi); break;
            case 4: entries[j].check.type = REGV_TYPE_RANGE; entries[j].check.arg.range.min = mkval(ty, lo); entries[j].check.arg.range.max = mkval(ty, hi); break;
            default: entries[j].check.type = REGV_TYPE_CALLBACK; entries[j].check.arg.cb = validator; break;
            }
        }
        entries[nr].type = REG_TYPE_INVALID;
        /* every second description is put into the table object as the previous one left it (re-initialisation) */
        static unsigned tinits;
        if ((tinits++ & 1) == 0) memset(&T, 0, sizeof T);
        T.area = areas; T.entry = entries;
        register_make_bigendian(&T, be != 0);
        have = 1;
        in_init = 1;
        RegisterInit ri = register_init(&T);
        in_init = 0;
        obs(ev, (long long)ri.code);
        if (ri.code == REG_INIT_SUCCESS) {
            obs(ev, 0);
            for (int i = 0; i < na; i++) { obs(ev, areas[i].entry.first); obs(ev, areas[i].entry.last); obs(ev, areas[i].entry.count); }
            obs(ev, -7);
            image(ev);
        } else if (ri.code == REG_INIT_AREA_INVALID_ORDER || ri.code == REG_INIT_AREA_ADDRESS_OVERLAP || ri.code == REG_INIT_NO_AREAS) {
            obs(ev, (long long)ri.pos.area);
        } else {
            obs(ev, (long long)ri.pos.entry);
        }
        return;
    }
    if (ev_is(ev, "tmacro")) {
        /* the table of gen/macro_table.inc, written with the library's public construction macros (the arguments of the event repeat
         * its description for the model; the adapter does not use them) */
        drop();
        be = (int)ev->a[0];
        na = M_NA; nr = M_NR; ps_area = -1; is_macro = 1;
        areas = M_areas; entries = M_entries;
        for (int i = 0; i < na; i++) {
            A[i].base = M_meta[i][0]; A[i].size = M_meta[i][1]; A[i].rd = M_meta[i][2]; A[i].wr = M_meta[i][3];
            A[i].skip = M_meta[i][4]; A[i].hasw = M_meta[i][5]; A[i].kind = M_meta[i][6];
            if (A[i].kind == 1) {
                store[i] = xblock(sizeof(RegisterAtom) * (size_t)A[i].size);
                memset(store[i], 0, sizeof(RegisterAtom) * (size_t)A[i].size);
            } else {
                store[i] = areas[i].mem;
                memset(store[i], 0x77, sizeof(RegisterAtom) * (size_t)A[i].size);
            }
            memset(&areas[i].entry, 0x5A, sizeof areas[i].entry);
        }
        memset(&T, 0, sizeof T);
        T.area = areas; T.entry = entries;
        /* the macro-built entry list is a static object of this process: what an earlier script left in its touched marks is not part of
         * the description (register_init does not promise to clear them, and no property says it would) - start as a fresh image does */
        for (int j = 0; j < nr; j++) register_untouch(&T, (RegisterHandle)j);
        register_make_bigendian(&T, be != 0);
        have = 1;
        in_init = 1;
        RegisterInit ri = register_init(&T);
        in_init = 0;
        obs(ev, (long long)ri.code);
        if (ri.code == REG_INIT_SUCCESS) {
            obs(ev, 0);
            for (int i = 0; i < na; i++) { obs(ev, areas[i].entry.first); obs(ev, areas[i].entry.last); obs(ev, areas[i].entry.count); }
            obs(ev, -7);
            image(ev);
        } else obs(ev, (long long)ri.pos.entry);
        return;
    }
    if (ev_is(ev, "tinitbig")) {
        /* tinitbig n be: one memory-backed area [0, n) (shifted by abase) with n u16 registers, register j at address j with
         * default (7 j) mod 2^16 - more registers than a 16-bit handle can name.  Observation: code first last count */
        drop();
        long long n = ev->a[0];
        be = (int)ev->a[1];
        na = 1; nr = (int)n; ps_area = -1;
        A[0].base = 0; A[0].size = n; A[0].rd = 1; A[0].wr = 1; A[0].skip = 0; A[0].hasw = 1; A[0].kind = 0;
        areas = xblock(sizeof(RegisterArea) * 2);
        memset(areas, 0, sizeof(RegisterArea) * 2);
        store[0] = xblock(sizeof(RegisterAtom) * (size_t)n);
        memset(store[0], 0x77, sizeof(RegisterAtom) * (size_t)n);
        memset(&areas[0].entry, 0x5A, sizeof areas[0].entry);
        areas[0].base = (RegisterAddress)0 + SH; areas[0].size = (RegisterOffset)n;
        areas[0].flags = REG_AF_READABLE | REG_AF_WRITEABLE;
        areas[0].mem = store[0]; areas[0].read = reg_mem_read; areas[0].write = reg_mem_write;
        entries = xblock(sizeof(RegisterEntry) * (size_t)(n + 1));
        memset(entries, 0, sizeof(RegisterEntry) * (size_t)(n + 1));
        for (long long j = 0; j < n; j++) {
            entries[j].type = REG_TYPE_UINT16;
            entries[j].address = (RegisterAddress)j + SH;
            entries[j].default_value.u16 = (uint16_t)((j * 7) % 65536);
            entries[j].check.type = REGV_TYPE_TRIVIAL;
        }
        entries[n].type = REG_TYPE_INVALID;
        memset(&T, 0, sizeof T);
        T.area = areas; T.entry = entries;
        register_make_bigendian(&T, be != 0);
        have = 1;
        in_init = 1;
        RegisterInit ri = register_init(&T);
        in_init = 0;
        obs(ev, (long long)ri.code);
        obs(ev, areas[0].entry.first); obs(ev, areas[0].entry.last); obs(ev, areas[0].entry.count);
        return;
    }
    if (!have) { fprintf(stderr, "regtab: no table\n"); exit(2); }
    if (ev_is(ev, "set")) {
        RegisterValue v;
        int ty = (int)ev->a[2];
        v.type = tymap[ty]; v.value = mkval(ty, ev->a + 3);
        RegisterAccess r = ev->a[1] ? register_set_unsafe(&T, (RegisterHandle)ev->a[0], v) : register_set(&T, (RegisterHandle)ev->a[0], v);
        obs(ev, cls(r.code));
        if (cls(r.code) != 2) image(ev);
        return;
    }
    if (ev_is(ev, "sweep16")) {
        /* every 16-bit value through set (+get): accept set as intervals, count of inexact stores/read-backs */
        RegisterHandle h = (RegisterHandle)ev->a[0];
        int ty = tyindex(entries[h].type);
        long long bad = 0, niv = 0;
        int at = ev->no, open = 0;
        long long start = 0;
        obs(ev, 0);
        size_t total = 0;
        for (int i = 0; i < na; i++) total += (size_t)A[i].size;
        RegisterAtom *snap = malloc(total * sizeof(RegisterAtom) + 2);
        for (long long x = 0; x < 65536; x++) {
            if ((x & 0xff) == 0) driver_kick();
            size_t o = 0;
            for (int i = 0; i < na; i++) { memcpy(snap + o, store[i], (size_t)A[i].size * 2); o += (size_t)A[i].size; }
            long long w[4] = { 0, 0, 0, x };
            RegisterValue v; v.type = tymap[ty]; v.value = mkval(ty, w);
            RegisterAccess r = ev->a[1] ? register_set_unsafe(&T, h, v) : register_set(&T, h, v);
            int ok = r.code == REG_ACCESS_SUCCESS;
            if (ok) {
                RegisterValue g; memset(&g, 0, sizeof g);
                RegisterAccess rg = register_get(&T, h, &g);
                uint16_t gv = ty == 0 ? g.value.u16 : (uint16_t)g.value.s16;
                if (rg.code != REG_ACCESS_SUCCESS || g.type != tymap[ty] || gv != (uint16_t)x) bad++;
                /* exactly the register's word changed, and it holds x in table order */
                o = 0;
                for (int i = 0; i < na; i++)
                    for (long long k = 0; k < A[i].size; k++, o++) {
                        long long addr = A[i].base + k;
                        if (addr == UNSH(entries[h].address)) { if (atom2word(store[i][k]) != x) bad++; }
                        else if (store[i][k] != snap[o]) bad++;
                    }
            } else {
                o = 0;
                for (int i = 0; i < na; i++) { if (memcmp(snap + o, store[i], (size_t)A[i].size * 2) != 0) bad++; o += (size_t)A[i].size; }
            }
            if (ok && !open) { open = 1; start = x; }
            if (!ok && open) { open = 0; obs(ev, start); obs(ev, x - 1); niv++; }
        }
        if (open) { obs(ev, start); obs(ev, 65535); niv++; }
        ev->o[at] = niv;
        obs(ev, bad);
        free(snap);
        return;
    }
    if (ev_is(ev, "get")) {
        RegisterValue v;
        memset(&v, 0, sizeof v);
        RegisterAccess r = register_get(&T, (RegisterHandle)ev->a[0], &v);
        obs(ev, cls(r.code));
        if (r.code == REG_ACCESS_SUCCESS) { int ty = tyindex(v.type); obs(ev, ty); if (ty >= 0) putval(ev, ty, v.value); }
        return;
    }
    if (ev_is(ev, "bitset") || ev_is(ev, "bitclr")) {
        RegisterValue v;
        int ty = (int)ev->a[1];
        v.type = tymap[ty]; v.value = mkval(ty, ev->a + 2);
        RegisterAccess r = ev_is(ev, "bitset") ? register_bit_set(&T, (RegisterHandle)ev->a[0], v) : register_bit_clear(&T, (RegisterHandle)ev->a[0], v);
        obs(ev, cls(r.code));
        if (cls(r.code) != 2) image(ev);
        return;
    }
    if (ev_is(ev, "bwrite")) {
        size_t n = (size_t)ev->a[1];
        RegisterAtom *buf = n ? xblock(n * sizeof(RegisterAtom)) : xblock0();
        for (size_t i = 0; i < n; i++) buf[i] = word2atom(ev->a[2 + i]);
        RegisterAccess r = register_block_write(&T, (RegisterAddress)ev->a[0] + SH, (RegisterOffset)n, buf);
        obs(ev, bcls(r.code));
        if (bcls(r.code) != 2) { obs(ev, r.code == REG_ACCESS_SUCCESS ? 0 : UNSH(r.address)); image(ev); obs(ev, -7); touchvec(ev); }
        if (n) xfree(buf); else xfree0(buf);
        return;
    }
    if (ev_is(ev, "bread")) {
        size_t n = (size_t)ev->a[1];
        RegisterAtom *buf = n ? xblock(n * sizeof(RegisterAtom)) : xblock0();
        if (n) memset(buf, 0xaa, n * sizeof(RegisterAtom));
        RegisterAccess r = register_block_read(&T, (RegisterAddress)ev->a[0] + SH, (RegisterOffset)n, buf);
        obs(ev, bcls(r.code));
        if (bcls(r.code) != 2) {
            obs(ev, r.code == REG_ACCESS_SUCCESS ? 0 : UNSH(r.address));
            if (r.code == REG_ACCESS_SUCCESS) for (size_t i = 0; i < n; i++) obs(ev, atom2word(buf[i]));
        }
        if (n) xfree(buf); else xfree0(buf);
        return;
    }
    if (ev_is(ev, "foreach")) {
        FE.n = (int)ev->a[2]; FE.k = 0; FE.nseen = 0;
        for (int i = 0; i < FE.n && i < 64; i++) FE.s[i] = ev->a[3 + i];
        RegisterAccess r = register_foreach_in(&T, (RegisterAddress)ev->a[0] + SH, (RegisterOffset)ev->a[1], fe_cb, NULL);
        obs(ev, cls(r.code));
        if (cls(r.code) != 2) {
            obs(ev, r.code == REG_ACCESS_SUCCESS ? 0 : UNSH(r.address));
            for (int i = 0; i < FE.nseen; i++) obs(ev, FE.seen[i]);
        }
        return;
    }
    if (ev_is(ev, "sanitise")) {
        RegisterAccess r = register_sanitise(&T);
        obs(ev, cls(r.code));
        if (cls(r.code) != 2) { image(ev); obs(ev, -7); touchvec(ev); }
        return;
    }
    if (ev_is(ev, "pvalidate")) {
        /* a fresh instance on the same medium validates; guard octets around the region must be intact */
        if (ps_area < 0) { obs(ev, -1); return; }
        PersistentStorage q;
        persistent_init(&q, sizeof(RegisterAtom) * (size_t)A[ps_area].size, ps_rd, ps_wr);
        persistent_sum16(&q, ps_crc, 0);
        persistent_place(&q, 3);
        long long guards = 0;
        for (size_t i = 0; i < 3; i++) if (ps_medium[i] != 0xee || ps_medium[ps_msize - 1 - i] != 0xee) guards++;
        obs(ev, (long long)persistent_validate(&q)); obs(ev, ps_oob); obs(ev, guards);
        return;
    }
    if (ev_is(ev, "default")) {
        RegisterValue v; memset(&v, 0, sizeof v);
        RegisterAccess r = register_default(&T, (RegisterHandle)ev->a[0], &v);
        obs(ev, cls(r.code));
        if (r.code == REG_ACCESS_SUCCESS) { int ty = tyindex(v.type); obs(ev, ty); if (ty >= 0) putval(ev, ty, v.value); }
        return;
    }
    if (ev_is(ev, "compare")) {
        RegisterAccess r = register_compare(&T, (RegisterHandle)ev->a[0], (RegisterHandle)ev->a[1]);
        obs(ev, cls(r.code));
        return;
    }
    if (ev_is(ev, "mcopy")) {
        RegisterAccess r = register_mcopy(&T, (AreaHandle)ev->a[0], (AreaHandle)ev->a[1]);
        obs(ev, cls(r.code)); image(ev);
        return;
    }
    if (ev_is(ev, "userinit")) {
        FE.n = (int)ev->a[0]; FE.k = 0; FE.nseen = 0;
        for (int i = 0; i < FE.n && i < 64; i++) FE.s[i] = ev->a[1 + i];
        RegisterAccess r = register_user_init(&T, fe_cb);
        obs(ev, cls(r.code));
        if (cls(r.code) != 2) {
            obs(ev, r.code == REG_ACCESS_SUCCESS ? 0 : UNSH(r.address));
            for (int i = 0; i < FE.nseen; i++) obs(ev, FE.seen[i]);
        }
        return;
    }
    if (ev_is(ev, "hexstr")) {
        size_t n = (size_t)ev->a[1];
        char *str = n ? xblock(n) : xblock0();
        for (size_t i = 0; i < n; i++) str[i] = (char)ev->a[2 + i];
        RegisterAccess r = register_set_from_hexstr(&T, (RegisterAddress)ev->a[0] + SH, str, n);
        obs(ev, bcls(r.code)); obs(ev, r.code == REG_ACCESS_SUCCESS ? 0 : UNSH(r.address)); image(ev);
        if (n) xfree(str); else xfree0(str);
        return;
    }
    if (ev_is(ev, "serve")) {
        int tr = (int)ev->a[0];
        size_t cap = (size_t)ev->a[1], nw = (size_t)ev->a[2];
        unsigned char *wire = nw ? xblock(nw) : xblock0();
        for (size_t i = 0; i < nw; i++) wire[i] = (unsigned char)ev->a[3 + i];
        SrvArr wa = { wire, nw, 0 };
        static RegP rp;
        static BlockAllocator ba;
        regp_init(&rp);
        regp_use_memory16(&rp, srv_read, srv_write);
        Source s = OCTET_SOURCE_INIT(srv_src, &wa);
        Sink k = CHUNK_SINK_INIT(srv_sink, NULL);
        regp_use_channel(&rp, tr == 0 ? RP_EP_SERIAL : RP_EP_TCP, s, k);
        BlockAllocator b0 = MAKE_STDHEAD_BLOCKALLOC(cap + sizeof(RPFrame));
        ba = b0;
        regp_use_allocator(&rp, &ba);
        srv_outn = 0;
        RPMaybeFrame mf; memset(&mf, 0, sizeof mf);
        int rc = regp_recv(&rp, &mf);
        if (rc >= 0) (void)regp_process(&rp, &mf);
        regp_free(&rp, mf.frame);
        for (size_t i = 0; i < srv_outn; i++) obs(ev, srv_out[i]);
        obs(ev, -7); image(ev); obs(ev, -7); touchvec(ev);
        if (nw) xfree(wire); else xfree0(wire);
        return;
    }
    if (ev_is(ev, "corrupt")) {
        long long addr = ev->a[0];
        for (int i = 0; i < na; i++)
            if (addr >= A[i].base && addr < A[i].base + A[i].size) {
                store[i][addr - A[i].base] = word2atom(ev->a[1]);
                if (i == ps_area) {   /* out-of-band: data and checksum rewritten consistently (the medium itself stays valid) */
                    ps_sync();
                    RegisterAtom w = word2atom(ev->a[1]);
                    (void)persistent_store_part(&PS, &w, (size_t)(addr - A[i].base) * sizeof(RegisterAtom), sizeof(RegisterAtom));
                }
            }
        obs(ev, 0); image(ev);
        return;
    }
    (void)canary_hits;
    fprintf(stderr, "regtab: unknown op %s\n", ev->name);
    exit(2);
}
