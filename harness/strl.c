/* Adapter: the bounded string functions of src/compat (extra X10, spec/Strl.tla).
 *   cpy dsize n d1..dn m s1..sm | ret d1'..dn'      cat likewise      nlen maxlen n d1..dn | ret
 * dst lives in an exact-size heap block of n octets (dsize <= n), src in an exact-size block of m+1 octets. */
#include <stdio.h>
#include <stdlib.h>
#include <string.h>
#include <stdint.h>

#include <ufw/toolchain.h>
#include <ufw/compat/strings.h>

/* the host has strnlen, so the library does not compile its own: compile it here under another name */
#undef UFW_COMPAT_HAVE_STRNLEN
#define strnlen ufw_compat_strnlen
size_t ufw_compat_strnlen(const char *, size_t);
#include <compat/strnlen.c>
#undef strnlen

#include "driver.h"

const char *adapter_name = "strl";

void adapter_exec(Ev *ev)
{
    if (ev_is(ev, "@")) return;
    if (ev_is(ev, "nlen")) {
        size_t maxlen = (size_t)ev->a[0], n = (size_t)ev->a[1];
        char *mem = n ? xblock(n) : xblock0();
        for (size_t i = 0; i < n; i++) mem[i] = (char)ev->a[2 + i];
        obs(ev, (long long)ufw_compat_strnlen(mem, maxlen));
        if (n) xfree(mem); else xfree0(mem);
        return;
    }
    if (ev_is(ev, "cpy") || ev_is(ev, "cat")) {
        size_t dsize = (size_t)ev->a[0], n = (size_t)ev->a[1], m = (size_t)ev->a[2 + n];
        char *dst = n ? xblock(n) : xblock0();
        char *src = xblock(m + 1);
        for (size_t i = 0; i < n; i++) dst[i] = (char)ev->a[2 + i];
        for (size_t i = 0; i < m; i++) src[i] = (char)ev->a[3 + n + i];
        src[m] = 0;
        size_t r = ev_is(ev, "cpy") ? strlcpy(dst, src, dsize) : strlcat(dst, src, dsize);
        obs(ev, (long long)r);
        for (size_t i = 0; i < n; i++) obs(ev, (unsigned char)dst[i]);
        for (size_t i = 0; i < m; i++) if (src[i] != (char)ev->a[3 + n + i]) obs(ev, -777);     /* the source is read only */
        if (src[m] != 0) obs(ev, -778);
        xfree(src);
        if (n) xfree(dst); else xfree0(dst);
        return;
    }
    fprintf(stderr, "strl: unknown op %s\n", ev->name);
    exit(2);
}
