/* Adapter: continuable sink (extra X05, spec/ContSink.tla).
 *   init block fb reserve      block 0: no allocator; fb 99: no fallback buffer; reserve: post-allocation callback sets used = offset = reserve
 *   write n allocok            sink_put_chunk of the next n stream octets (octet at position p is p % 251 + 1)
 * Observation of write: rc errid datacount allocated used fbused <block data from reserve> -7 <fallback data>
 */
#include <stdio.h>
#include <stdlib.h>
#include <string.h>

#include <ufw/allocator.h>
#include <ufw/byte-buffer.h>
#include <ufw/endpoints.h>
#include <ufw/endpoints/continuable-sink.h>

#include "driver.h"

const char *adapter_name = "cs";

static ContinuableSink cs;
static Sink sink;
static BlockAllocator ba;
static ByteBuffer fbb;
static unsigned char *fbmem = NULL, *blk = NULL;
static size_t blocksz, reserve, pos;
static int allocok, nalloc, havefb;

static int my_alloc(void *driver, void **m, size_t n)
{
    (void)driver;
    nalloc++;
    if (!allocok || n != blocksz) return -12;
    blk = xblock(n);
    memset(blk, 0xEE, n ? n : 1);
    *m = blk;
    return 0;
}
static void my_free(void *driver, void *m) { (void)driver; xfree(m); }
static void post(ByteBuffer *b) { b->used = reserve; b->offset = reserve; }

static void cleanup(void)
{
    if (blk) { xfree(blk); blk = NULL; }
    if (fbmem) { xfree(fbmem); fbmem = NULL; }
}

void adapter_exec(Ev *ev)
{
    if (ev_is(ev, "@")) { cleanup(); return; }
    if (ev_is(ev, "init")) {
        cleanup();
        blocksz = (size_t)ev->a[0];
        havefb = ev->a[1] != 99;
        reserve = (size_t)ev->a[2];
        pos = 0; nalloc = 0;
        BlockAllocator tmp = MAKE_GENERIC_BLOCKALLOC(NULL, my_alloc, my_free, blocksz);
        ba = tmp;
        if (havefb) {
            fbmem = xblock((size_t)ev->a[1]);
            byte_buffer_space(&fbb, fbmem, (size_t)ev->a[1]);
        }
        ContinuableSink t = CONTINUABLE_SINK(blocksz ? &ba : NULL, havefb ? &fbb : NULL, post);
        cs = t;
        continuable_sink_init(&sink, &cs);
        obs(ev, 0);
        return;
    }
    if (ev_is(ev, "write")) {
        size_t n = (size_t)ev->a[0];
        allocok = (int)ev->a[1];
        unsigned char *src = xblock(n);
        for (size_t i = 0; i < n; i++) src[i] = (unsigned char)((pos + i) % 251 + 1);
        long long rc = sink_put_chunk(&sink, src, n);
        xfree(src);
        pos += n;
        int al = cs.buffer.data != NULL;
        obs(ev, rc);
        obs(ev, cs.error.id);
        obs(ev, (long long)cs.error.datacount);
        obs(ev, al);
        obs(ev, al ? (long long)cs.buffer.used : 0);
        obs(ev, havefb ? (long long)fbb.used : 0);
        if (al && cs.buffer.data == blk && cs.buffer.used <= blocksz && cs.buffer.size == blocksz)
            for (size_t i = reserve; i < cs.buffer.used; i++) obs(ev, cs.buffer.data[i]);
        else if (al) obs(ev, -99);                       /* the sink's view of the block is not the block */
        obs(ev, -7);
        if (havefb) for (size_t i = 0; i < fbb.used && i < (size_t)fbb.size; i++) obs(ev, fbb.data[i]);
        if (nalloc > 1) obs(ev, -98);                    /* the allocator was asked more than once */
        return;
    }
    obs(ev, -999);
}
