/* Adapter: ufw sources/sinks (C17).  See spec/Endpoints.tla.
 *   <api> sk kk n L R nss ss.. nks ks..  |  observation (layout depends on api family)
 * sk/kk: 1 octet-style driver, 2 chunk-style driver.  Stream octet i has value i.
 */
#include <errno.h>
#include <limits.h>
#include <setjmp.h>
#include <stdio.h>
#include <stdlib.h>
#include <string.h>
#include <stdint.h>

#include <ufw/byte-buffer.h>
#include <ufw/endpoints.h>

#include "driver.h"

const char *adapter_name = "endp";

static jmp_buf bail;
static long budget;
#define BUDGET 20000

typedef struct { long pos, L; long long ss[64]; int nss, is; long calls; } SrcD;
typedef struct { unsigned char got[8192]; long n; long long ks[64]; int nks, ik; long calls; } SnkD;

static long amount(long long b, long want)
{
    switch (b) { case 1: return 1; case 2: return want < 2 ? want : 2; case 3: return (want + 1) / 2; default: return want; }
}
/* behaviour 9 in a script: three hundred interruptions in a row */
static long long run9(const long long *sc, int *idx, long *rep)
{
    if (++*rep < 300) return -EINTR;
    *rep = 0; (*idx)++;
    return -EINTR;
}
static long rep_s, rep_k;
static long long next_s(SrcD *s) { if (s->is < s->nss && s->ss[s->is] == 9) return run9(s->ss, &s->is, &rep_s); return s->is < s->nss ? s->ss[s->is++] : 4; }
static long long next_k(SnkD *k) { if (k->ik < k->nks && k->ks[k->ik] == 9) return run9(k->ks, &k->ik, &rep_k); return k->ik < k->nks ? k->ks[k->ik++] : 4; }

/* A driver may itself move octets between other endpoints (a tee, a logger): every second driver call first runs the chunk calls and
 * the plumbing on the library's trivial endpoints (zero source, null sink).  The endpoint functions are expected to be re-entrant. */
static unsigned drv_calls;
static int drv_depth;
static void drv_nested(void)
{
    if (drv_depth || (drv_calls++ % 2)) return;
    unsigned char tmp[5], auxm[3];
    ByteBuffer ab = BYTE_BUFFER_INIT(auxm, sizeof auxm, sizeof auxm, 0);
    drv_depth++;
    (void)source_get_chunk(&source_zero, tmp, sizeof tmp);
    (void)sink_put_chunk(&sink_null, tmp, sizeof tmp);
    (void)sts_n_cbc(&source_zero, &sink_null, 2);
    (void)sts_n_aux(&source_zero, &sink_null, &ab, 4);
    (void)sts_n(&source_zero, &sink_null, 2);
    drv_depth--;
}
static ssize_t src_chunk(void *drv, void *buf, size_t n)
{
    SrcD *s = drv;
    drv_nested();
    if (++budget > BUDGET) longjmp(bail, 1);
    s->calls++;
    if (s->pos >= s->L) {
        /* at the end of the data a driver may still say "nothing right now" before it reports the end */
        if (s->is < s->nss && (s->ss[s->is] == 0 || s->ss[s->is] == -4 || s->ss[s->is] == -11)) return (ssize_t)s->ss[s->is++];
        return -ENODATA;
    }
    long long b = next_s(s);
    if (b <= 0) return (ssize_t)b;
    long d = amount(b, (long)n);
    if (d > s->L - s->pos) d = s->L - s->pos;
    for (long i = 0; i < d; i++) ((unsigned char *)buf)[i] = (unsigned char)(s->pos + i + 1);
    s->pos += d;
    return d;
}
static int src_octet(void *drv, void *buf)
{
    SrcD *s = drv;
    drv_nested();
    if (++budget > BUDGET) longjmp(bail, 1);
    s->calls++;
    if (s->pos >= s->L) {
        if (s->is < s->nss && (s->ss[s->is] == 0 || s->ss[s->is] == -4 || s->ss[s->is] == -11)) return (int)s->ss[s->is++];
        return -ENODATA;
    }
    long long b = next_s(s);
    if (b <= 0) return (int)b;
    *(unsigned char *)buf = (unsigned char)(s->pos + 1);
    s->pos += 1;
    return 1;
}
static ssize_t snk_chunk(void *drv, const void *buf, size_t n)
{
    SnkD *k = drv;
    drv_nested();
    if (++budget > BUDGET) longjmp(bail, 1);
    k->calls++;
    long long b = next_k(k);
    if (b <= 0) return (ssize_t)b;
    long d = amount(b, (long)n);
    for (long i = 0; i < d && k->n < (long)sizeof k->got; i++) k->got[k->n++] = ((const unsigned char *)buf)[i];
    return d;
}
static int snk_octet(void *drv, unsigned char o)
{
    SnkD *k = drv;
    drv_nested();
    if (++budget > BUDGET) longjmp(bail, 1);
    k->calls++;
    long long b = next_k(k);
    if (b <= 0) return (int)b;
    if (k->n < (long)sizeof k->got) k->got[k->n++] = o;
    return 1;
}

/* drivers that only account for octets (putbig / getbig: N beyond INT_MAX, no memory behind it) */
typedef struct { long long ks[8]; int nks, ik; uint64_t count; } BigD;
static ssize_t big_step(BigD *d, size_t n)
{
    if (++budget > BUDGET) longjmp(bail, 1);
    long long b = d->ik < d->nks ? d->ks[d->ik++] : 4;
    if (b <= 0) return (ssize_t)b;
    size_t k = b == 4 ? n : (size_t)b < n ? (size_t)b : n;
    d->count += k;
    return (ssize_t)k;
}
static ssize_t big_sink(void *drv, const void *buf, size_t n) { (void)buf; return big_step(drv, n); }
static ssize_t big_source(void *drv, void *buf, size_t n) { (void)buf; return big_step(drv, n); }

static ByteBuffer ext_bb;
static ByteBuffer ext_getbuffer(Source *src) { (void)src; return ext_bb; }

void adapter_exec(Ev *ev)
{
    if (ev_is(ev, "@")) return;
    if (ev_is(ev, "chsrc")) {
        int nc = (int)ev->a[0];
        ByteBuffer *cs = calloc((size_t)(nc ? nc : 1), sizeof *cs);
        unsigned char **blks = calloc((size_t)(nc ? nc : 1), sizeof *blks);
        for (int i = 0; i < nc; i++) {
            size_t size = (size_t)ev->a[1 + 3 * i], used = (size_t)ev->a[2 + 3 * i], off = (size_t)ev->a[3 + 3 * i];
            blks[i] = xblock(size);
            for (size_t p = 0; p < size; p++) blks[i][p] = (unsigned char)((40 * i + (int)p + 1) % 256);
            cs[i].data = blks[i]; cs[i].size = size; cs[i].used = used; cs[i].offset = off;
        }
        ByteChunks bc = { (size_t)nc, (size_t)ev->a[1 + 3 * nc], cs };
        long n = (long)ev->a[2 + 3 * nc];
        Source src; SnkD k2; Sink snk;
        memset(&k2, 0, sizeof k2);
        source_from_chunks(&src, &bc);
        chunk_sink_init(&snk, snk_chunk, &k2);
        unsigned char *out = xblock((size_t)n);
        unsigned char auxm[3];
        ByteBuffer ab = BYTE_BUFFER_INIT(auxm, sizeof auxm, sizeof auxm, 0);
        budget = 0; rep_s = rep_k = 0;
        volatile long long rc = -9999;
        if (setjmp(bail) == 0) {
            rc = source_get_chunk(&src, out, (size_t)n);
            (void)sts_drain_aux(&src, &snk, &ab);
        }
        obs(ev, rc);
        if (rc >= 0) for (long i = 0; i < n; i++) obs(ev, out[i]);
        obs(ev, -7);
        for (long i = 0; i < k2.n; i++) obs(ev, k2.got[i]);
        xfree(out);
        for (int i = 0; i < nc; i++) xfree(blks[i]);
        free(cs); free(blks);
        return;
    }
    if (ev_is(ev, "putbig") || ev_is(ev, "getbig")) {
        BigD d; memset(&d, 0, sizeof d);
        uint64_t n = get_w64(ev->a);
        d.nks = (int)ev->a[4];
        for (int i = 0; i < d.nks && i < 8; i++) d.ks[i] = ev->a[5 + i];
        unsigned char *one = xblock(1);
        budget = 0;
        volatile long long rc = -9999;
        if (setjmp(bail) == 0) {
            if (ev_is(ev, "putbig")) { Sink k2; chunk_sink_init(&k2, big_sink, &d); rc = sink_put_chunk(&k2, one, (size_t)n); }
            else { Source s2; chunk_source_init(&s2, big_source, &d); rc = source_get_chunk(&s2, one, (size_t)n); }
        }
        if (rc >= 0) { obs(ev, 1); put_w64(ev, (uint64_t)rc); } else { obs(ev, 0); obs(ev, rc); }
        if (rc >= 0) put_w64(ev, d.count); else { obs(ev, 0); obs(ev, 0); obs(ev, 0); obs(ev, (long long)d.count); }
        xfree(one);
        return;
    }
    static SrcD s; static SnkD k;
    memset(&s, 0, sizeof s); memset(&k, 0, sizeof k);
    rep_s = rep_k = 0;
    int sk = (int)ev->a[0], kk = (int)ev->a[1];
    long n = (long)ev->a[2];
    s.L = (long)ev->a[3];
    long R = (long)ev->a[4];
    int at = 5;
    s.nss = (int)ev->a[at++];
    for (int i = 0; i < s.nss && i < 64; i++) s.ss[i] = ev->a[at++];
    k.nks = (int)ev->a[at++];
    for (int i = 0; i < k.nks && i < 64; i++) k.ks[i] = ev->a[at++];
    Source src; Sink snk;
    memset(&src, 0xA5, sizeof src); memset(&snk, 0xA5, sizeof snk);     /* the init calls must set every field */
    if (sk == 1) octet_source_init(&src, src_octet, &s); else chunk_source_init(&src, src_chunk, &s);
    if (kk == 1) octet_sink_init(&snk, snk_octet, &k); else chunk_sink_init(&snk, snk_chunk, &k);
    budget = 0;
    volatile long long rc = -9999;
    unsigned char *volatile dest = NULL; unsigned char *volatile data = NULL; unsigned char *volatile aux = NULL;
    volatile int fam = 0;
    if (ev_is(ev, "get") || ev_is(ev, "getam") || ev_is(ev, "geto")) {
        fam = 1;
        size_t reqn = n < 0 ? (size_t)SSIZE_MAX + 1u : (size_t)n;      /* n = -1: one more than SSIZE_MAX */
        dest = n > 0 ? xblock((size_t)n) : xblock0();
        if (n > 0) memset(dest, 170, (size_t)n);
        if (setjmp(bail) == 0) {
            if (ev_is(ev, "get")) rc = source_get_chunk(&src, dest, reqn);
            else if (ev_is(ev, "getam")) rc = source_get_chunk_atmost(&src, dest, (size_t)n);
            else rc = source_get_octet(&src, dest);
        }
        obs(ev, rc); obs(ev, s.pos);
        if (!(ev_is(ev, "get") && n <= 0)) for (long i = 0; i < n; i++) obs(ev, dest[i]);
        if (n > 0) xfree(dest); else xfree0(dest);
    } else if (ev_is(ev, "put") || ev_is(ev, "putam") || ev_is(ev, "puto")) {
        fam = 2;
        size_t reqn = n < 0 ? (size_t)SSIZE_MAX + 1u : (size_t)n;
        data = n > 0 ? xblock((size_t)n) : xblock0();
        for (long i = 0; i < n; i++) data[i] = (unsigned char)(i + 1);
        if (setjmp(bail) == 0) {
            if (ev_is(ev, "put")) rc = sink_put_chunk(&snk, data, reqn);
            else if (ev_is(ev, "putam")) rc = sink_put_chunk_atmost(&snk, data, (size_t)n);
            else rc = sink_put_octet(&snk, data[0]);
        }
        obs(ev, rc);
        for (long i = 0; i < k.n; i++) obs(ev, k.got[i]);
        if (n > 0) xfree(data); else xfree0(data);
    } else {
        fam = 3;
        /* auxiliary block: designated region [O, O+R), canary octets in front of and behind it (R > 10: O = 2) */
        /* (R > 20: O = 8.  The counted and the draining call rewind the buffer first: its region then is the first R octets of the block) */
        long O = R > 20 ? 8 : R > 10 ? 2 : 0;
        R = R % 10;
        int rewinds = ev_is(ev, "naux") || ev_is(ev, "daux");
        aux = xblock((size_t)(O + R + 2));
        memset(aux, 0xc5, (size_t)(O + R + 2));
        memset(aux + O, 0x5a, (size_t)R);
        ByteBuffer b = BYTE_BUFFER_INIT(aux, (size_t)(O + R + 2), (size_t)(O + R), (size_t)O);
        if (ev_is(ev, "sstx") || ev_is(ev, "astx") || ev_is(ev, "nstx") || ev_is(ev, "dstx")) {
            /* sstx/astx/nstx/dstx: the source offers the designated region as its scratch buffer (getbuffer extension) */
            ext_bb = b;
            src.ext.getbuffer = ext_getbuffer;
        }
        if (setjmp(bail) == 0) {
            if (ev_is(ev, "cbc")) rc = sts_cbc(&src, &snk);
            else if (ev_is(ev, "ncbc")) rc = sts_n_cbc(&src, &snk, (size_t)n);
            else if (ev_is(ev, "dcbc")) rc = sts_drain_cbc(&src, &snk);
            else if (ev_is(ev, "someaux")) rc = sts_some_aux(&src, &snk, &b);
            else if (ev_is(ev, "amaux")) rc = sts_atmost_aux(&src, &snk, &b, (size_t)n);
            else if (ev_is(ev, "naux")) rc = sts_n_aux(&src, &snk, &b, (size_t)n);
            else if (ev_is(ev, "daux")) rc = sts_drain_aux(&src, &snk, &b);
            else if (ev_is(ev, "sstx")) rc = sts_some(&src, &snk);
            else if (ev_is(ev, "astx")) rc = sts_atmost(&src, &snk, (size_t)n);
            else if (ev_is(ev, "nstx")) rc = sts_n(&src, &snk, (size_t)n);
            else if (ev_is(ev, "dstx")) rc = sts_drain(&src, &snk);
            else if (ev_is(ev, "ssts")) rc = sts_some(&src, &snk);
            else if (ev_is(ev, "asts")) rc = sts_atmost(&src, &snk, (size_t)n);
            else if (ev_is(ev, "nsts")) rc = sts_n(&src, &snk, (size_t)n);
            else if (ev_is(ev, "dsts")) rc = sts_drain(&src, &snk);
            else { fprintf(stderr, "endp: unknown op %s\n", ev->name); exit(2); }
        }
        obs(ev, rc); obs(ev, s.pos);
        {
            int touched_outside = aux[O + R] != 0xc5 || aux[O + R + 1] != 0xc5;
            for (long i = 0; i < O; i++) if (aux[i] != 0xc5 && !(rewinds && i < R)) touched_outside = 1;
            obs(ev, touched_outside);
        }
        for (long i = 0; i < k.n; i++) obs(ev, k.got[i]);
        xfree(aux);
    }
    (void)fam;
}
