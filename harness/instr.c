/* Adapter: instrumentable endpoints (extra X06, spec/Instrumentable.tla). */
#include <stdio.h>
#include <stdlib.h>
#include <string.h>

#include <ufw/byte-buffer.h>
#include <ufw/endpoints.h>

#include "driver.h"

const char *adapter_name = "instr";

static InstrumentableBuffer ib;
static Source src;
static Sink snk;
static unsigned char *mem = NULL;
static size_t memsz;

static void state(Ev *ev, long long rc)
{
    obs(ev, rc);
    obs(ev, (long long)ib.buffer.offset);
    obs(ev, (long long)ib.buffer.used);
    obs(ev, (long long)ib.count.read);
    obs(ev, (long long)ib.count.write);
}

void adapter_exec(Ev *ev)
{
    if (ev_is(ev, "@")) { if (mem) { xfree(mem); mem = NULL; } return; }
    if (ev_is(ev, "setup")) {
        if (mem) xfree(mem);
        memsz = (size_t)ev->a[0];
        mem = xblock(memsz);
        memset(&ib, 0, sizeof ib);
        ib.buffer.data = mem; ib.buffer.size = memsz; ib.buffer.used = 0; ib.buffer.offset = 0;
        for (size_t i = 0; i < (size_t)ev->a[1]; i++) mem[i] = (unsigned char)(11 + i);
        ib.buffer.used = (size_t)ev->a[1];
        ib.count.read = 77; ib.count.write = 77; ib.error.at = 1; ib.error.number = -5; ib.flags = INSTRUMENTABLE_ERROR_AT_COUNT;
        instrumentable_source(&src, &ib);
        instrumentable_sink(&snk, &ib);
        obs(ev, 0);
    } else if (ev_is(ev, "errat")) {
        instrumentable_error_at(&ib, (size_t)ev->a[0], -(int)ev->a[1]);
        obs(ev, 0);
    } else if (ev_is(ev, "noerr")) {
        instrumentable_no_error(&ib);
        obs(ev, 0);
    } else if (ev_is(ev, "get")) {
        unsigned char *o = xblock(1);
        *o = 0;
        int rc = source_get_octet(&src, o);
        obs(ev, rc);
        obs(ev, rc == 1 ? *o : 0);
        xfree(o);
        obs(ev, (long long)ib.buffer.offset); obs(ev, (long long)ib.buffer.used);
        obs(ev, (long long)ib.count.read); obs(ev, (long long)ib.count.write);
    } else if (ev_is(ev, "put")) {
        int rc = sink_put_octet(&snk, (unsigned char)ev->a[0]);
        obs(ev, rc);
        obs(ev, 0);
        obs(ev, (long long)ib.buffer.offset); obs(ev, (long long)ib.buffer.used);
        obs(ev, (long long)ib.count.read); obs(ev, (long long)ib.count.write);
        if (rc == 1 && mem[ib.buffer.used - 1] != (unsigned char)ev->a[0]) obs(ev, -99);
    } else if (ev_is(ev, "getn") || ev_is(ev, "getam")) {
        size_t n = (size_t)ev->a[0];
        unsigned char *o = n ? xblock(n) : xblock0();
        long long rc = ev_is(ev, "getn") ? source_get_chunk(&src, o, n) : source_get_chunk_atmost(&src, o, n);
        state(ev, rc);
        for (long long i = 0; i < rc; i++) obs(ev, o[i]);
        if (n) xfree(o); else xfree0(o);
    } else if (ev_is(ev, "putn") || ev_is(ev, "putam")) {
        size_t n = (size_t)ev->a[0];
        unsigned char *o = n ? xblock(n) : xblock0();
        for (size_t i = 0; i < n; i++) o[i] = (unsigned char)(101 + i);
        long long rc = ev_is(ev, "putn") ? sink_put_chunk(&snk, o, n) : sink_put_chunk_atmost(&snk, o, n);
        state(ev, rc);
        for (size_t i = 0; i < ib.buffer.used && i < memsz; i++) obs(ev, mem[i]);
        if (n) xfree(o); else xfree0(o);
    } else obs(ev, -999);
}
