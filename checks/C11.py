"""C11 persistent storage under power cuts and medium faults: PersistentTrace.tla validates recorded executions."""
import random, itertools
import vf
from C10 import mbase

META = dict(
    engine='Persistent.tla',
    technique='TLA+ spec Persistent.tla/PersistentTrace.tla: the harness enumerates every crash point (write-call prefix x torn length) of every store of a configuration grid and every position of a single failing/short medium call in every operation on the real code; TLC validates each recorded execution and evaluates the C11 verdict (valid => checksum matches data; whole-write cut => previous or new image; struck fault => I/O error) on it',
    level='For each configuration of the grid and each store (full, and partial at several offset/length pairs, over a previous valid image) the real code is cut off after every prefix of its medium writes with the next write torn at every length, a fresh instance then validates and fetches, and TLC checks on the recorded trace that the medium changed only inside the region, that validate/fetch report what the specification computes from the medium image, and - as invariant CrashVerdict - that a valid verdict implies matching checksum and, for whole-write cuts, exactly the previous or the new image. For every operation and every k the k-th medium call is made to fail or transfer short; TLC checks that a struck fault is reported as I/O error and never as success.',
    note='Trusted: TLC, harness/persist.c (power cut = later writes dropped, torn write = prefix applied). The number and order of medium calls is whatever the code does (logged, not prescribed).',
)

ALGS = [1, 2, 3]


def grid(quick):
    ns = [1, 2, 3, 5] if quick else [1, 2, 3, 4, 5, 6, 7, 8, 9, 12, 16, 17]
    for n in ns:
        for alg in ALGS:
            for place in ([0, 1] if quick else [0, 1, 7, 100]):
                auxs = [9999, 9998, 0, 1, 2, n, n + 1] if not quick else [9999, 9998, 0, 2, n + 1]
                for aux in sorted(set(auxs)):
                    yield n, alg, place, aux
    if quick:
        # a 32-bit checksum whose upper half takes part: the sum of twelve octets no longer fits sixteen bits
        for place, aux in ((0, 9999), (1, 0)):
            yield 12, 3, place, aux


def crash_scripts(rnd, quick):
    for n, alg, place, aux in grid(quick):
        width = 4 if alg == 3 else 2
        msize = place + width + n + 2
        head = 'cfg %d %d %d %d %d' % (msize, place, n, alg, aux)
        prev = [rnd.choice([0, 1, 255]) for _ in range(n)]
        new = [(x + 1 + rnd.choice([0, 1])) % 256 for x in prev]
        stores = [('store %d %s' % (n, ' '.join(map(str, new))), n)]
        for off, ln in {(0, 1), (n - 1, 1), (0, n), (n // 2, n - n // 2)}:
            if ln >= 1:
                stores.append(('storep %d %d %s' % (off, ln, ' '.join(map(str, new[off:off + ln]))), ln))
        sc = []
        mb = mbase(rnd, head)
        for st, ln in stores:
            for cut in range(0, 4):
                for torn in sorted(set(range(0, max(ln, width) + 1))):
                    sc += mb + [head, 'store %d %s' % (n, ' '.join(map(str, prev))), 'validate',
                           'crash %d %d' % (cut, torn), st, 'reopen', 'validate', 'fetch']
        yield sc


def fault_scripts(rnd, quick):
    for n, alg, place, aux in grid(quick):
        width = 4 if alg == 3 else 2
        msize = place + width + n + 2
        head = 'cfg %d %d %d %d %d' % (msize, place, n, alg, aux)
        img = [rnd.choice([0, 1, 255]) for _ in range(n)]
        img2 = [(x + 3) % 256 for x in img]
        ops = ['store %d %s' % (n, ' '.join(map(str, img2))),
               'storep 0 1 %d' % img2[0], 'storep %d 1 %d' % (n - 1, img2[-1]),
               'validate', 'fetch', 'fetchp 0 1', 'reset 255']
        sc = []
        mb = mbase(rnd, head)
        for op in ops:
            for k in range(1, n + 5):
                for kind in (1, 2, 4, 5):
                    # the instance lives on after a reported I/O error: what it then says about the medium must be as true as
                    # what a fresh instance says (validated before, so that nothing remembered from then can be reused)
                    sc += mb + [head, 'store %d %s' % (n, ' '.join(map(str, img))), 'validate',
                           'fault %d %d' % (k, kind), op, 'validate', 'fetch', 'reopen', 'validate', 'fetch']
        # an image that does not validate (one octet altered), then validate / fetch with a fault at every read - also at reads
        # only a second pass over the medium would make: a failing read is an I/O error wherever it falls
        sc2 = []
        for a in (place, place + width, place + width + n - 1):
            for k in range(1, 2 * (n + 3) + 2):
                for kind in (1, 4, 5):
                    sc2 += mb + [head, 'store %d %s' % (n, ' '.join(map(str, img))), 'corrupt %d %d' % (a, 170),
                                 'fault %d %d' % (k, kind), 'validate', 'validate', 'reopen', 'validate']
        yield sc + sc2


def run(tier):
    v = vf.Verdict('C11', tier)
    vf.build()
    quick = tier != 'thorough'
    rnd = random.Random(vf.seed())
    cs = list(crash_scripts(rnd, quick))
    fs = list(fault_scripts(rnd, quick))
    ncrash = sum(s.count('reopen') for s in map(' '.join, cs))
    vf.trace_flow(v, 'PersistentTrace.tla', 'PersistentTrace.cfg', 'persist', cs, 'pscrash')
    vf.trace_flow(v, 'PersistentTrace.tla', 'PersistentTrace.cfg', 'persist', fs, 'psfault')
    npoints = sum(sum(1 for l in s if l.startswith('crash')) for s in cs)
    nfaults = sum(sum(1 for l in s if l.startswith('fault')) for s in fs)
    v.cov['distinct_nontrivial'] += npoints + nfaults
    v.notes['crash_points'] = npoints
    v.notes['fault_positions'] = nfaults
    v.cov['rule'] = ('every (configuration, store, cut, torn length) and every (configuration, operation, k, fault kind) of the grid is executed on the real '
                     'code and the recorded trace validated by TLC with invariant CrashVerdict; distinct_nontrivial = crash points + fault positions enumerated.')
    v.cov['exhaustive'] = True
    v.assumptions += ['a power cut loses all later writes and applies a prefix of the write in flight', 'one fault per operation']
    v.finish()
