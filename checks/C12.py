"""C12 SLIP: Slip.tla (octet-granular decoder with source/sink faults, independent reference reading of a stream)."""
import random
import vf

META = dict(
    engine='Slip.tla',
    technique='TLA+ spec Slip.tla: TLC checks round trip, delimiter use, length bound, concatenation, classic and start-of-frame resynchronisation and error pass-through on every enumerated case and emits the prescribed result of each; all raw inputs up to a length bound (every split into decode calls, source/sink fault at every position) and all payloads are replayed on the real codec; recorded full-alphabet runs validated by TLC (SlipTrace.tla)',
    level='TLC enumerates every raw decoder input up to the length bound over {END, ESC, ESC_END, ESC_ESC, other} in both modes, every position of a single source or sink fault on the shorter inputs, every payload for the encoder, triples of short frames and garbage prefixes, and checks the C12 statements against an independent reference reading of the stream in each case; the prescribed per-call results (code, source position, emitted octets) of each case are compared with the real rfc1055_decode/encode driven by scripted octet sources and chunk sinks on exact-size blocks; random full-alphabet payloads (to 1 KiB), garbage prefixes and faults recorded from the real code are recomputed by TLC.',
    note='Trusted: TLC, harness/slip.c (scripted source/sink drivers). What a decode call leaves in the sink before an illegal sequence is compared too (it is what the model of the algorithm prescribes); a source fault between ESC and its second octet loses the ESC (as coded; the statement is silent).',
)

END, ESC = 192, 219


def slip_encode(sof, pl):
    out = [END] if sof else []
    for o in pl:
        out += [ESC, 220] if o == END else [ESC, 221] if o == ESC else [o]
    return out + [END]


def e2(rnd, n, maxlen):
    for _ in range(n):
        sc = []
        for _ in range(12):
            sof = rnd.randint(0, 1)
            k = rnd.random()
            ln = rnd.choice([0, 1, 2, 3, 10, 50, rnd.randint(0, maxlen)])
            pl = [rnd.choice([END, ESC, 220, 221, rnd.randint(0, 255), rnd.randint(0, 255)]) for _ in range(ln)]
            if k < 0.3:
                sc.append('enc %d 0 -5 0 -28 %d %s' % (sof, len(pl), ' '.join(map(str, pl))))
            elif k < 0.4:
                ep = rnd.randint(0, len(pl))
                sk = rnd.randint(0, len(pl) + 2)
                sc.append('enc %d %d %d %d %d %d %s' % (sof, ep, rnd.choice([-5, -11, -4, -32]), sk, rnd.choice([-28, -84, -5, -12]), len(pl), ' '.join(map(str, pl))))
            else:
                # garbage prefix + a few encoded frames, sometimes with a fault
                g = [rnd.choice([END, ESC, 220, 221, rnd.randint(0, 255)]) for _ in range(rnd.choice([0, 0, 1, 2, 5, 20]))]
                stream = list(g)
                for _ in range(rnd.randint(1, 4)):
                    m = rnd.choice([0, 1, 2, 5, ln])
                    stream += slip_encode(sof, [rnd.choice([END, ESC, rnd.randint(0, 255)]) for _ in range(m)])
                stream = stream[:2500]
                ep = rnd.choice([0, 0, 0, rnd.randint(0, len(stream))])
                sk = rnd.choice([0, 0, 0, rnd.randint(0, len(stream))])
                # the codes the endpoints fail with are theirs - also the decoder's own "illegal sequence" coming from a sink or a source
                sc.append('run %d %d %d %d %d %d %s' % (sof, ep, rnd.choice([-5, -11, -4, -32]), sk, rnd.choice([-28, -84, -84, -5, -12]), len(stream), ' '.join(map(str, stream))))
        yield sc


def run(tier):
    v = vf.Verdict('C12', tier)
    vf.build()
    quick = tier != 'thorough'
    cases = []
    r = vf.tlc_must_pass('Slip.tla', 'SlipMC.cfg' if quick else 'SlipMCt.cfg', 'slip',
                         sink=lambda b: cases.append(b[3:]) if b.startswith('C;;') else None, heap='16g')
    v.add_tlc(r)
    scripts = [cases[i:i + 500] for i in range(0, len(cases), 500)]
    res = vf.run_scripts('slip', scripts, 'C12', name='slip', flavours=12)
    v.exec_problems(res, 'slip')
    v.cov['traces_validated_against_impl'] += len(cases)
    v.cov['evaluations'] += res.checked
    v.cov['distinct_nontrivial'] += sum(1 for c in cases if ' 192' in c or ' 219' in c)
    v.cov['samples'] += [dict(kind='E1 case from TLC (run sof errpos errcode sinkat sinkcode n octets | ncalls {rc srcpos outlen out})',
                              events=[c for c in cases if c.startswith('run 1 ')][1000:1003] + [c for c in cases if c.startswith('enc ')][500:502])]
    v.notes['e1'] = dict(cases=len(cases), decoder_runs=sum(1 for c in cases if c.startswith('run')),
                         encoder_cases=sum(1 for c in cases if c.startswith('enc')),
                         model_cases_checked=r.distinct, cfg='SlipMC.cfg' if quick else 'SlipMCt.cfg')
    rnd = random.Random(vf.seed())
    vf.trace_flow(v, 'SlipTrace.tla', 'SlipTrace.cfg', 'slip', e2(rnd, 64 if quick else 640, 300 if quick else 1024), 'sliptrace', flavours=12)
    v.cov['rule'] = ('E0/E1: every raw input up to MaxRaw octets over the five octet classes, both modes, decoded by repeated calls; a single source '
                     'or sink fault at every position for inputs up to MaxRawErr; every payload up to MaxPayload through the encoder (with faults for the '
                     'short ones); prescribed results from TLC. distinct_nontrivial = distinct cases containing END or ESC. E2: random full-alphabet streams.')
    v.cov['exhaustive'] = True
    v.assumptions += ['octet-style source (one octet per driver call), chunk-style sink', 'fault model: one transient source fault and one transient sink fault per run']
    v.finish()
