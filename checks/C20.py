"""C20 s-expression reader: Sx.tla (Render, recursive-descent Parse, ParseInvertsRender)."""
import random
import vf

META = dict(
    engine='Sx.tla',
    technique='TLA+ spec Sx.tla: Render (trees to text with whitespace and hex-case variants) and an independent recursive-descent Parse; TLC checks Parse(Render(t)) = t with the position just past the expression for every tree of the bounded family and emits the prescribed outcome of every string up to a length bound over a 10-character alphabet; each case is replayed on the real reader in both presentations (NUL-terminated and length-delimited on an exact-size heap block under ASan, allocation balance measured); recorded mutated renderings and random strings are validated by TLC (SxTrace.tla)',
    level='TLC enumerates every tree up to the depth/width bound over {a, b-1, 0, 10, 255} in 12 rendering styles (decimal / #x lower / #x upper, three whitespace styles) and checks that parsing the rendering returns the identical tree and the position just past it, and every string up to the length bound over "( ) space a 1 # x F - {" with the outcome of the reference reader (tree and position, or error); the real reader must return exactly that, with an error status returning no tree, zero octets left allocated after destroying the result, identical results for the NUL-terminated and the length-delimited presentation, no read outside the n octets (ASan) and termination (watchdog).',
    note='Trusted: TLC, harness/sx.c (tree flattening, allocation accounting via the ASan allocator statistics), ASan. Integers are compared up to 2^31-1 in the model family; sx_parse_token (token level) is not constrained by C20.',
)

ALPH = [40, 41, 32, 97, 49, 35, 120, 70, 45, 123]


def render(rnd, depth):
    k = rnd.random()
    if depth == 0 or k < 0.3:
        c = rnd.random()
        if c < 0.4:
            return rnd.choice(['a', 'b-1', 'foo', 'x', 'F', '+', 'set!'])
        n = rnd.choice([0, 1, 10, 255, 4096, rnd.randint(0, 2 ** 31 - 1)])
        return str(n) if c < 0.7 else ('#x%x' % n if c < 0.85 else '#x%X' % n)
    items = [render(rnd, depth - 1) for _ in range(rnd.randint(0, 4))]
    sep = rnd.choice([' ', '  ', '\n', '\t ', '\v', '\f', '\r\n', ' \f\v '])
    pad = rnd.choice(['', '', ' '])
    return '(' + pad + sep.join(items) + pad + ')'


FIXED = ['18446744073709551615', '18446744073709551616', '99999999999999999999999', '#xFFFFFFFFFFFFFFFF', '#x10000000000000000',
         '#xffffffffffffffffff', '007', '#x00ff', '#X1f', '#x', '#', '#xg', '(#x)', '1a', '-1', '+1', 'a(b)c', '(a(b)c)', '(1(2))', '(()())',
         '((a)(b))', '(a . b)', "'a", '"s"', '(a;b)', 'a)', '()', '( )', '(((((((((())))))))))', '9' * 40, 'z' * 120, '#x' + 'A' * 40,
         '(' + 'q ' * 60 + ')', '0', '00', '(0 00 000)', '#x0', '4294967295', '4294967296', '65535 65536', '(65536)']


def e2(rnd, count):
    # numbers at and beyond 2^64 (the reader reduces modulo 2^64), leading zeros, lone prefixes, atoms glued to parentheses ...
    yield ['parse %d %s' % (len(s), ' '.join(str(ord(c)) for c in s)) for s in FIXED]
    # one long-lived process: thousands of inputs that end inside open lists, then well-formed lists again (nothing may accumulate)
    def line(s):
        return 'parse %d %s' % (len(s), ' '.join(str(ord(c)) for c in s))
    yield [line('((((a'), line('(((( 1 (b'), line('(a (b (c')] * 1100 + [line(x) for x in ('(a (b))', '((((a))))', '()', '(1 (2 (3 (4))))')]
    for _ in range(count):
        sc = []
        for _ in range(200):
            s = rnd.choice(['', ' ', '\n']) + render(rnd, rnd.randint(0, 4)) + rnd.choice(['', '', ' ', ')', ' x'])
            k = rnd.random()
            b = [ord(c) for c in s]
            if k < 0.35 and b:
                for _ in range(rnd.randint(1, 2)):
                    i = rnd.randrange(len(b))
                    m = rnd.random()
                    if m < 0.4:
                        b[i] = rnd.choice(ALPH + [9, 10, 11, 12, 13, 48, 57, 65, 102, 103, 126, 127, 200])
                    elif m < 0.7:
                        del b[i]
                        if not b:
                            break
                    else:
                        b.insert(i, rnd.choice(ALPH))
            elif k < 0.45:
                b = [rnd.choice(ALPH + [9, 10, 11, 12, 13, 48, 98, 102, 71]) for _ in range(rnd.randint(0, 12))]
            elif k < 0.5:
                b = b[:rnd.randint(0, len(b))]
            b = [x for x in b if x != 0][:300]
            sc.append('parse %d %s' % (len(b), ' '.join(map(str, b))))
        yield sc


def run(tier):
    v = vf.Verdict('C20', tier)
    vf.build()
    quick = tier != 'thorough'
    cases = []
    r = vf.tlc_must_pass('Sx.tla', 'SxMC.cfg' if quick else 'SxMCt.cfg', 'sx',
                         sink=lambda b: cases.append(b[3:]) if b.startswith('C;;') else None, heap='16g')
    v.add_tlc(r)
    scripts = [cases[i:i + 1000] for i in range(0, len(cases), 1000)]
    res = vf.run_scripts('sx', scripts, 'C20', name='sx')
    v.exec_problems(res, 'sx')
    v.cov['traces_validated_against_impl'] += len(cases)
    v.cov['evaluations'] += res.checked
    v.cov['distinct_nontrivial'] += len(set(c for c in cases if c.split(' | ')[1].startswith('0 ')))
    v.cov['samples'] += [dict(kind='E1 cases from TLC (parse n chars | status pos leak agree tree / 1 leak agree)',
                              events=[c for c in cases if c.startswith('parse 1') and ' | 0' in c][100:103] + [c for c in cases if c.startswith('parse 5 ')][2000:2002])]
    v.notes['e1'] = dict(cases=len(cases), successes=sum(1 for c in cases if c.split(' | ')[1].startswith('0 ')))
    rnd = random.Random(vf.seed())
    vf.trace_flow(v, 'SxTrace.tla', 'SxTrace.cfg', 'sx', e2(rnd, 48 if quick else 2400), 'sxtrace')
    v.cov['rule'] = ('E0/E1: every tree up to depth MaxDepth with at most MaxItems items per list over 5 atoms x 12 rendering styles; every string of length <= MaxLen over the 10-character alphabet; '
                     'E2: mutated renderings and random strings. distinct_nontrivial = distinct cases whose prescribed outcome is a tree.')
    v.cov['exhaustive'] = True
    v.finish()
