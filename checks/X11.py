"""X11 (extra): the sliding-window low pass of convolution-low-pass.h (ConvLowPass.tla) - complete state graph, every edge replayed."""
import vf

META = dict(not_applicable='extra behaviour beyond the listed properties; run by bin/extras')


def run(tier):
    v = vf.Verdict('X11', tier)
    vf.build()
    vf.graph_flow(v, 'ConvLowPass.tla', 'ConvLowPassMC.cfg', 'clp', 'clp', depth=4, budget=30000, walks=100, walklen=40)
    v.cov['rule'] = ('complete state graph of ConvLowPass.tla (window lengths 1..4, values {-7, -1, 0, 1, 8, 10^6}, up to 5 updates between two inits, re-init with another length); '
                     'invariants WindowIsTheRecentPast, AvgWithinWindow, AvgExact, MedianSplits, MinValuesMonotone, ConstantInput; every edge and all paths to depth 4 replayed on two '
                     'instantiations (int, long long) with exact-size window and scratch blocks under ASan')
    v.cov['exhaustive'] = True
    v.finish()
