"""C08 emitted frames: Regp.tla (wire image per doc/regp.txt) / RegpTrace.tla (EmitOK)."""
import random
import vf
from regpcommon import *

META = dict(
    engine='Regp.tla',
    technique='TLA+ spec RegpOps.tla / RegpEmitMC.tla (TLC enumerates ~70k emit calls, checks conformance of each prescribed frame, all replayed) states the wire image of every frame kind per doc/regp.txt (big-endian header, CRC-16/ARC header and payload checksums exactly on serial links, SLIP / varint framing) and an independent reading of a received frame; every emit entry point of the real library is driven over transports x word sizes x addresses x sizes x payloads x sequence numbers, its output fed to the library-own receiver on a peer instance, and TLC validates each recorded call (exact octets on the wire, sequence number increment, the fields and payload the peer received) with RegpTrace.tla',
    level='For read/write requests in 8- and 16-bit semantics, acknowledgements with and without payload, each of the eleven error responses (to read and to write requests) and both meta messages, on serial and TCP transports and both memory word sizes, with addresses/sizes at the 16/32-bit boundaries, payloads containing the SLIP control octets, lengths crossing the one/two-octet varint boundary and sequence numbers around 0xFFFF, TLC checks that the octets the real code emitted are exactly the ones the specification prescribes, that the specification-s own reading classifies them as a valid frame, that a request advances the session sequence number by one modulo 2^16, and that the library-s own receiver accepted the frame and reported the same type, option bits, response code, sequence number, address, block size and payload octets.',
    note='Trusted: TLC, harness/regp.c, my reading of doc/regp.txt encoded in Regp.tla (in particular: the block size field of every frame except read requests and meta messages is the payload size in words of the frame-s word size). 16-bit payload words travel in host order (the library sends the memory image); payloads are handled as octet strings.',
)


def scripts(rnd, quick):
    sc = []
    addrs = [0, 1, 0xFFFF, 0x10000, 0x7FFF0000 | 0xABCD, 0xFFFFFFFF]
    seqs = [0, 1, 0xFFFE, 0xFFFF, 0x1234]
    if not quick:
        addrs += [0xC0DBDCDD, 0x80000000, 0x00C00000]
        seqs += [0xC0DB, 0x7FFF, 0x8000]
    specials = [END, ESC, 220, 221, 0, 255]
    for tr in (0, 1):
        for mem16 in (0, 1):
            for addr in addrs:
                a = '%d %d' % (addr >> 16, addr & 0xFFFF)
                for seq in (seqs if addr in (0, 0xFFFFFFFF) or not quick else seqs[:2]):
                    for n in (0, 1, 2, 255, 256, 65535):
                        sc.append('emit 1 %d %d %d %s %d' % (tr, mem16, seq, a, n))
                        sc.append('emit 2 %d %d %d %s %d' % (tr, mem16, seq, a, n))
                    lens = [1, 2, 3, 5, 16, 99, 100, 101, 115, 116, 117, 126, 127, 128, 129, 255, 256] if addr == 0 or not quick else [1, 4, rnd.randint(1, 300)]
                    for n in lens:
                        pl = [rnd.choice(specials + [rnd.randint(0, 255)] * 3) for _ in range(n)]
                        sc.append('emit 3 %d %d %d %s %d %s' % (tr, mem16, seq, a, n, ' '.join(map(str, pl))))
                        pl2 = [rnd.choice(specials + [rnd.randint(0, 255)] * 3) for _ in range(2 * n)]
                        sc.append('emit 4 %d %d %d %s %d %s' % (tr, mem16, seq, a, n, ' '.join(map(str, pl2))))
                    for reqtype in (0, 2):
                        # acknowledgements: with payload for reads, without for writes
                        for n in ([0, 1, 2, 57, 58, 64] if reqtype == 0 else [0]):
                            ws = 2 if mem16 else 1
                            pl = [rnd.choice(specials + [rnd.randint(0, 255)] * 2) for _ in range(n * ws)]
                            sc.append('emit 5 %d %d 0 %d %d %s %d %s' % (tr, mem16, reqtype, seq, a, n, ' '.join(map(str, pl))))
                        for code in range(1, 12):
                            val = rnd.choice([0, 1, 0xC0DB, 0xDBDC0000 | 0xC0, 0xFFFFFFFF, addr])
                            sc.append('emit %d %d %d 0 %d %d %s %d %d' % (10 + code, tr, mem16, reqtype, seq, a, val >> 16, val & 0xFFFF))
            for m in (1, 2):
                sc.append('emit 30 %d %d 0 %d' % (tr, mem16, m))
    rnd.shuffle(sc)
    if quick:
        sc = sc[: 4000]
    # block sizes that are multiples of 2^16 (a length kept in 16 bits would read them as "no payload")
    for tr in (0, 1):
        pl = [rnd.choice([END, ESC, 0, 1, rnd.randint(0, 255)]) for _ in range(65536)]
        sc.append('emit 3 %d 0 7 0 16 65536 %s' % (tr, ' '.join(map(str, pl))))
        sc.append('emit 4 %d 1 8 0 32 65536 %s' % (tr, ' '.join(map(str, pl + pl))))
    # the same emissions into a sink that refuses its k-th call, followed by a further request: what went out is a prefix of the
    # prescribed image and a sequence number that reached the wire is not used again
    sc += ['emitf %d %s' % (k, l[5:]) for l in sc[:300 if quick else 3000] for k in (1, 2, 3, 4, 6)]
    rnd.shuffle(sc)
    for i in range(0, len(sc), 250):
        yield sc[i:i + 250]


def run(tier):
    v = vf.Verdict('C08', tier)
    vf.build()
    quick = tier != 'thorough'
    # E0/E1: TLC enumerates a grid of calls of every emit entry point, checks conformance of the prescribed frame on each
    # (RegpEmitMC.tla: EmitConforms) and emits call + prescribed observation; all are replayed on the real library
    cases = []
    r0 = vf.tlc_must_pass('RegpEmitMC.tla', 'RegpEmitMC.cfg', 'regpemit', heap='16g',
                          sink=lambda b: cases.append(b[3:]) if b.startswith('C;;') else None)
    v.add_tlc(r0)
    res1 = vf.run_scripts('regp', [cases[i:i + 500] for i in range(0, len(cases), 500)], 'C08', name='emc', flavours=3, flav_every=25)
    v.exec_problems(res1, 'regp')
    v.cov['traces_validated_against_impl'] += len(cases)
    v.cov['evaluations'] += res1.checked
    v.cov['samples'].append(dict(kind='E1 case from TLC (RegpEmitMC.tla): emit call | rc seq wire -7 peer view', events=cases[3000:3002]))
    v.notes['e0_e1'] = dict(model='RegpEmitMC.tla', cases=len(cases))
    ss = []
    for rnd in vf.rounds(tier, 8):
        ss += list(scripts(rnd, quick))
    vf.trace_flow(v, 'RegpTrace.tla', 'RegpTrace.cfg', 'regp', ss, 'emit', flavours=3)
    v.cov['distinct_nontrivial'] += len(set(l for s in ss for l in s))
    v.cov['rule'] = ('all emit entry points x 2 transports x 2 word sizes x boundary addresses x sizes x payloads with SLIP control octets x sequence numbers; '
                     'each recorded call validated by TLC (EmitOK). distinct_nontrivial = distinct emit calls.')
    v.finish()
