"""C09 memory safety and resource exactness of receive/process: Regp.tla via RegpTrace.tla, ASan, ledger allocator."""
import random
import vf
from regpcommon import *

META = dict(
    engine='Regp.tla',
    technique='TLA+ spec RegpOps.tla / RegpRxMC.tla (TLC enumerates receive cycles at the resource boundaries - capacities, frame lengths around the capacity, read sizes around the limit, allocation failure, frames cut below a header - checks C09Holds on every allowed outcome and emits each case for replay) and Regp.tla / RegpTrace.tla (RxAllowed: ledger, overflow / busy / short-frame replies, read limit with its grey zone, channel errors); regp_recv + regp_process + regp_free of the real library run on exact-size allocator blocks under ASan for every frame length around the block capacity, every read size around the transmit limit, allocation failure, block sizes from sizeof(frame)+1 upward, truncated and mutated streams and random octet streams on both transports; TLC validates each recorded run incl. the allocator ledger; ASan decides the out-of-block clauses',
    level='Every recorded run is validated by TLC: blocks obtained = blocks released, none twice, none live afterwards (also when the channel fails mid-frame); a frame longer than the block capacity is answered with a receive-overflow response, an allocation failure with a busy response, an empty or sub-header frame with the bad-header-encoding meta message; a read of n words is refused with transmit-overflow carrying the capacity when it cannot fit and served when it fits (either in the 4-octet grey zone between), and in every served case the recording backend fills all n words of the buffer it is handed, and for writes reads the whole announced block, so that ASan (exact-size blocks) observes any shortfall; no crash, no hang (call budget / watchdog).',
    note='Trusted: TLC, harness/regp.c (ledger allocator, recording backend), ASan. The receive-overflow reply may or may not carry the 32-bit capacity (document says it shall, the statement does not); busy/overflow replies are compared for well-formed requests only. A libFuzzer-driven generator was not built; random and mutated-valid streams are seeded.',
)


def scripts(rnd, quick, F):
    sc = []
    caps = list(range(1, 41)) + [64, 128 - F if 128 - F > 0 else 64]
    if quick:
        caps = [1, 2, 11, 12, 13, 14, 15, 16, 17, 18, 20, 27, 28, 29, 30, 31, 32, 33, 40, 64]
    for tr in (0, 1):
        for mem16 in (0, 1):
            ws = 2 if mem16 else 1
            for cap in caps:
                hdr = 14 if tr == 0 else 12
                # frame lengths around the capacity (write requests padded to length; reads have fixed length)
                for flen in sorted(set([0, 1, 2, 11, 12, 13, 14, 15, 16, 17, cap - 2, cap - 1, cap, cap + 1, cap + 2, cap + 3])):
                    if flen < 0:
                        continue
                    if flen >= hdr + (2 if tr == 0 else 0) + ws:
                        plen = flen - hdr - (2 if tr == 0 else 0)
                        plen -= plen % ws
                        n = plen // ws
                        o = request(tr, 1, mem16, rnd.randint(0, 65535), rnd.getrandbits(32), n, [rnd.randint(0, 255) for _ in range(plen)])
                        if plen and cap - 2 <= flen <= cap + 2:
                            # the same length with a SLIP control octet as the very last (and first) payload octet
                            for last in (192, 219):
                                pl2 = [last] + [rnd.randint(0, 255) for _ in range(plen - 2)] + [last] if plen >= 2 else [last]
                                o2 = request(tr, 1, mem16, rnd.randint(0, 65535), rnd.getrandbits(32), n, pl2[:plen])
                                sc.append(rx(tr, mem16, cap, wire(tr, o2), verdict=0))
                    else:
                        o = request(tr, 0, mem16, 7, 0x1000, 1)[:flen]
                    sc.append(rx(tr, mem16, cap, wire(tr, o), verdict=rnd.choice([0, 0, 7]), allocfail=rnd.choice([0, 2])))
                # read sizes around the transmit limit
                for n in sorted(set(max(0, x) for x in [0, 1, (cap - 16) // ws - 1, (cap - 16) // ws, (cap - 16) // ws + 1, (cap - 14) // ws, (cap - 12) // ws, (cap - 12) // ws + 1,
                                                         cap // ws - 1, cap // ws, cap // ws + 1, 65535])):
                    o = request(tr, 0, mem16, rnd.randint(0, 65535), 0x20, n)
                    sc.append(rx(tr, mem16, cap, wire(tr, o), verdict=0, data=[rnd.randint(0, 255) for _ in range(min(n * ws, 200))]))
                # allocation failure
                for write in (0, 1):
                    o = request(tr, write, mem16, 0xC0DB, 0xDBC0, 2, [1, 2, 3, 4][:2 * ws] if write else [])
                    sc.append(rx(tr, mem16, cap, wire(tr, o), allocfail=rnd.choice([1, 3])))
    # truncated / mutated-valid / random streams (channel errors, framing octets hit)
    for _ in range(1500 if quick else 40000):
        tr = rnd.randint(0, 1)
        mem16 = rnd.randint(0, 1)
        ws = 2 if mem16 else 1
        cap = rnd.choice([1, 5, 12, 14, 16, 20, 40, 64])
        n = rnd.randint(0, 12)
        write = rnd.randint(0, 1)
        o = request(tr, write, rnd.choice([mem16, mem16, 1 - mem16]), rnd.randint(0, 65535), rnd.getrandbits(32), n,
                    [rnd.choice([192, 219, rnd.randint(0, 255)]) for _ in range(n * ws)] if write else [])
        w = wire(tr, o)
        k = rnd.random()
        if k < 0.25:
            w = w[:rnd.randint(0, len(w))]                    # stream ends mid-frame
        elif k < 0.5:
            for _ in range(rnd.randint(1, 3)):
                if w:
                    w[rnd.randrange(len(w))] = rnd.choice([192, 219, 220, 221, 0, 255, rnd.randint(0, 255)])
        elif k < 0.65:
            w = [rnd.choice([192, 219, 220, 0, 128, 255, rnd.randint(0, 255)]) for _ in range(rnd.randint(0, 60))]
        sc.append(rx(tr, mem16, cap, w, verdict=rnd.choice([0, 0, 5, 11]), data=[rnd.randint(0, 255) for _ in range(30)]))
    # the sink the replies go to refuses a call: whatever the caller is told, the ledger stays exact
    for tr in (0, 1):
        for mem16 in (0, 1):
            ws = 2 if mem16 else 1
            for cap in (16, 24, 64):
                for n in (0, 1, 4, 30):
                    for write in (0, 1):
                        o = request(tr, write, mem16, 7, 0x20, n, [1] * (n * ws) if write else [])
                        for bits in (16, 48, 17):
                            sc.append(rx(tr, mem16, cap, wire(tr, o), allocfail=bits, verdict=0, data=[5] * 8))
                for junk in ([], [1, 2, 3]):
                    sc.append(rx(tr, mem16, cap, wire(tr, junk), allocfail=16))
    # TCP length prefixes that are not minimal (legal varints), up to the ten-octet limit and beyond it, and prefixes announcing
    # 2^28 octets and more: the unit is read like any other / ends inside the frame / is not a varint at all
    for mem16 in (0, 1):
        for n, write in ((0, 0), (1, 0), (2, 1)):
            ws = 2 if mem16 else 1
            o = request(1, write, mem16, 0xC0DB, 0x10, n, [7] * (n * ws) if write else [])
            L = len(o)
            for pad in (1, 2, 3, 4, 5, 8, 9, 10, 11):
                pre = [(L & 0x7f) | 0x80] + [0x80] * (pad - 1) + [0x00] if L < 128 else None
                if pre:
                    sc.append(rx(1, mem16, 64, pre + o, verdict=0, data=[9] * 8))
            sc.append(rx(1, mem16, 64, [0x80] * 4 + [0x00] + o, verdict=0))                     # announces nothing, in five octets
            sc.append(rx(1, mem16, 64, [L | 0x80, 0x80, 0x80, 0x80, 0x01] + o, verdict=0))       # announces 2^28 + L
            sc.append(rx(1, mem16, 64, [0xFF] * 9 + [0x01] + o, verdict=0))                      # announces 2^64 - 1
            sc.append(rx(1, mem16, 64, [0xFF] * 10 + [0x01] + o, verdict=0))                     # eleven octets: not a varint
    rnd.shuffle(sc)
    for i in range(0, len(sc), 300):
        yield sc[i:i + 300]
    # sessions: streams of several framed units on one instance with a random pattern of allocation failures,
    # frames around the capacity and reads around the limit in between
    for _ in range(80 if quick else 1000):
        tr, mem16 = rnd.randint(0, 1), rnd.randint(0, 1)
        ws = 2 if mem16 else 1
        cap = rnd.choice([16, 20, 28, 32, 40, 64])
        units = []
        for _ in range(rnd.randint(2, 8)):
            k = rnd.random()
            if k < 0.3:
                n = rnd.choice([0, 1, (cap - 16) // ws, (cap - 14) // ws, (cap - 12) // ws + 1, cap // ws + 1])
                o = request(tr, 0, mem16, rnd.randint(0, 65535), rnd.getrandbits(32), max(0, n))
            elif k < 0.8:
                n = rnd.randint(0, max(0, (cap + 4 - 16) // ws))
                o = request(tr, 1, mem16, rnd.randint(0, 65535), rnd.getrandbits(32), n, [rnd.choice([192, 219, rnd.randint(0, 255)]) for _ in range(n * ws)])
            else:
                o = request(tr, 0, mem16, 1, 2, 3)[:rnd.randint(0, 13)]
            units.append((o, dict(allocfail=1 if rnd.random() < 0.25 else 0, verdict=rnd.choice([0, 0, 5, 11]),
                                  data=[rnd.randint(0, 255) for _ in range(64)])))
        yield session(rnd, tr, mem16, cap, units)


def run(tier):
    v = vf.Verdict('C09', tier)
    vf.build()
    quick = tier != 'thorough'
    # E0/E1: TLC enumerates cycles at the resource boundaries, checks C09Holds on every allowed outcome (RegpRxMC.tla) and emits
    # each case with its allowed observations; all are replayed (source / allocator flavours chosen per case)
    cases = []
    rm = vf.tlc_must_pass('RegpRxMC.tla', 'RegpRxMC.cfg', 'regprx', heap='8g',
                          sink=lambda b: cases.append(flavoured(b[3:])) if b.startswith('C;;') else None)
    v.add_tlc(rm)
    res1 = vf.run_scripts('regp', [cases[i:i + 100] for i in range(0, len(cases), 100)], 'C09', name='rxc', flavours=3, flav_every=25)
    v.exec_problems(res1, 'regp')
    v.cov['traces_validated_against_impl'] += len(cases)
    v.cov['evaluations'] += res1.checked
    v.cov['samples'].append(dict(kind='E1 case from TLC (RegpRxMC.tla): rx call | allowed observations', events=cases[100:102]))
    v.notes['e0_e1'] = dict(model='RegpRxMC.tla', cases=len(cases), invariant='C09Holds')
    rnd = random.Random(vf.seed())
    r0 = vf.run_scripts('regp', [['sizeof']], 'C09', name='probe', record=True)
    import json
    F = json.loads(open(r0.records[0]).read().split('\n')[1])['o'][0]
    ss = []
    for rnd in vf.rounds(tier, 15):
        ss += list(scripts(rnd, quick, F))
    vf.trace_flow(v, 'RegpTrace.tla', 'RegpTrace.cfg', 'regp', ss, 'rxs', flavours=3)
    v.cov['distinct_nontrivial'] += len(set(l for s in ss for l in s))
    v.notes['sizeof_RPFrame'] = F
    v.cov['rule'] = ('2 transports x 2 word sizes x block capacities x {frame lengths around the capacity and around the header size, read sizes around the transmit limit, '
                     'allocation failure}; truncated, mutated-valid and random streams; each recorded run validated by TLC, ASan on exact-size blocks. distinct_nontrivial = distinct runs.')
    v.finish()
