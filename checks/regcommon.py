"""Shared generators for the register-table checks (C01-C05)."""
import struct

SIZE = [1, 2, 4, 1, 2, 4, 2, 4]
U16, U32, U64, S16, S32, S64, F32, F64 = range(8)
BITS = [16, 32, 64, 16, 32, 64, 32, 64]


def w4(bits):
    bits &= (1 << 64) - 1
    return [(bits >> 48) & 0xffff, (bits >> 32) & 0xffff, (bits >> 16) & 0xffff, bits & 0xffff]


def f32(x):
    return struct.unpack('<I', struct.pack('<f', x))[0]


def f64(x):
    return struct.unpack('<Q', struct.pack('<d', x))[0]


def pat(ty, value):
    """bit pattern of a python number for type ty"""
    if ty == F32:
        return f32(value)
    if ty == F64:
        return f64(value)
    return value & ((1 << BITS[ty]) - 1)


def area(base, size, rd=1, wr=1, skip=0, hasw=1, kind=0):
    return (base, size, rd, wr, skip, hasw, kind)


def reg(ty, addr, ck=0, lo=0, hi=0, default=0):
    return (ty, addr, ck, lo, hi, default)


def tinit(be, areas, regs):
    a = [be, len(areas)]
    for ar in areas:
        a += list(ar)
    a.append(len(regs))
    for (ty, addr, ck, lo, hi, df) in regs:
        a += [ty, addr, ck] + w4(lo) + w4(hi) + w4(df)
    return 'tinit ' + ' '.join(map(str, a))


def set_(h, ty, bits, unsafe=0):
    return 'set %d %d %d %s' % (h, unsafe, ty, ' '.join(map(str, w4(bits))))


def bit(op, h, ty, bits):
    return '%s %d %d %s' % (op, h, ty, ' '.join(map(str, w4(bits))))


def bwrite(addr, words):
    return 'bwrite %d %d %s' % (addr, len(words), ' '.join(map(str, words)))


def boundary_values(ty):
    """bit patterns around the type's limits and, for floats, every IEEE class"""
    b = BITS[ty]
    m = (1 << b) - 1
    if ty in (U16, U32, U64):
        return [0, 1, 2, m, m - 1, 1 << (b - 1), (1 << (b - 1)) - 1, 0x0001 | (1 << (b - 2)), 0xFFFF & m, (0x10000 & m)]
    if ty in (S16, S32, S64):
        return [0, 1, m, m - 1, 1 << (b - 1), (1 << (b - 1)) + 1, (1 << (b - 1)) - 1, 2, 0xFFFE & m]
    if ty == F32:
        return [0x00000000, 0x80000000, 0x3f800000, 0xbf800000, 0x00800000, 0x7f7fffff, 0xff7fffff, 0x80800000,
                0x00000001, 0x007fffff, 0x80000001, 0x7f800000, 0xff800000, 0x7fc00000, 0x7f800001, 0xffc12345,
                0x40200000, 0x3fc00000, 0x40000001]
    return [0, 1 << 63, 0x3ff0000000000000, 0xbff0000000000000, 0x0010000000000000, 0x7fefffffffffffff,
            0xffefffffffffffff, 1, 0x000fffffffffffff, (1 << 63) | 1, 0x7ff0000000000000, 0xfff0000000000000,
            0x7ff8000000000000, 0x7ff0000000000001, 0xfff8000000012345, 0x4004000000000000, 0x4000000000000001]


# --------------------------------------------------------------------------- table family TF

def value_set(ty, rnd):
    """(lo, hi, default, inside values, outside values) as bit patterns"""
    if ty in (U16, U32, U64):
        lo, hi = rnd.choice([(10, 20), (1, 0xFFFE), (0x100, 0x1FF), (2, 2), (0, 0), (0xFFFF, 0xFFFF), (0, 0xFFFF), (0x7FFF, 0x8000)])
        if ty != U16 and rnd.random() < 0.5:
            sh = BITS[ty] - 16
            lo, hi = (lo << sh), (hi << sh) | 0xFF00
        ins = [lo, hi, (lo + hi) // 2]
        outs = [lo - 1, hi + 1, (1 << BITS[ty]) - 1, 0] if lo > 0 else [hi + 1]
        return lo, hi, rnd.choice([lo, hi]), ins, [o & ((1 << BITS[ty]) - 1) for o in outs]
    if ty in (S16, S32, S64):
        top = (1 << (BITS[ty] - 1)) - 1
        lo, hi = rnd.choice([(-2, 3), (-100, -50), (5, 1000), (0, 0), (-top - 1, -top), (top - 1, top), (-top - 1, top), (-1, 0), (-1, -1)])
        m = (1 << BITS[ty]) - 1
        ins = [lo & m, hi & m, ((lo + hi) // 2) & m]
        outs = [(lo - 1) & m, (hi + 1) & m, 1 << (BITS[ty] - 1), (1 << (BITS[ty] - 1)) - 1]
        return lo & m, hi & m, lo & m, ins, outs
    f = f32 if ty == F32 else f64
    lo, hi = rnd.choice([(-1.0, 2.5), (0.5, 0.75), (-8.0, -2.0), (0.0, 1.0), (-0.0, 0.0), (1.0, 1.0), (-1e30, 1e30)])
    ins = [f(lo), f(hi), f((lo + hi) / 2)]
    outs = [f(lo - 1.0), f(hi + 3.0)]
    return f(lo), f(hi), f(lo), ins, outs


def undecodable(ty):
    if ty == F32:
        return [0x7fc00000, 0x7f800000, 0xff800000, 0x00000001, 0x807fffff, 0x7f800001]
    if ty == F64:
        return [0x7ff8000000000000, 0x7ff0000000000000, 0xfff0000000000000, 1, 0x800fffffffffffff]
    return []


SHAPES = [(0,), (0, 0), (1, 0), (0, 1), (1, 0, 1), (1, 1, 0), (0, 1, 1), (1, 0, 0), (1, 2, 1), (2, 1, 1), (1, 1, 2)]     # 1 populated / 0 register-less / 2 zero-sized areas, all adjacent; the first two: tables without any register


def make_table(rnd, types, window=14, want_holes=True, shape=None):
    """a well-formed table (python description + per register value sets).
    shape: per area 1 = populated, 0 = without registers; areas of a shaped table are adjacent and writable"""
    be = rnd.randint(0, 1)
    na = rnd.choice([1, 2, 2, 3]) if shape is None else len(shape)
    # carve areas out of [1, window]
    pos = 1 + rnd.randint(0, 2)
    areas = []
    for i in range(na):
        size = rnd.choice([1, 2, 3, 4, 5, 6]) if shape is None else (rnd.choice([3, 4, 5]) if shape[i] == 1 else (0 if shape[i] == 2 else rnd.choice([1, 2])))
        if pos + size > window + 1:
            break
        fl = rnd.random() if shape is None else 1.0
        rd, wr, hasw = 1, 1, 1
        if fl < 0.15:
            wr = 0            # read-only by flag
        elif fl < 0.25:
            rd = 0            # write-only
        elif fl < 0.30:
            hasw = 0          # no write callback at all
        areas.append(area(pos, size, rd, wr, rnd.choice([0, 0, 0, 1]), hasw, rnd.choice([0, 0, 1])))
        pos += size + (rnd.choice([0, 0, 1, 2]) if want_holes and shape is None else 0)
    regs, info = [], []
    for ai, (base, size, rd, wr, skip, hasw, kind) in enumerate(areas):
        a = base
        if shape is not None and shape[ai] != 1:
            continue
        while a < base + size:
            if rnd.random() < (0.25 if shape is None else 0.1):
                a += 1          # gap between registers
                continue
            ty = rnd.choice(types)
            if a + SIZE[ty] > base + size:
                ty = rnd.choice([t for t in types if SIZE[t] == 1] or [U16])
                if a + SIZE[ty] > base + size:
                    break
            lo, hi, df, ins, outs = value_set(ty, rnd)
            ck = rnd.choice([0, 2, 3, 4, 4, 5, 1] if ty not in (F32, F64) else [0, 2, 3, 4, 4])
            if ck == 5:
                df = (df & ~0xFFFF) | 2
                ins = [(x & ~0xFFFF) | 2 for x in ins] + [0, 0xFFFF & ((1 << BITS[ty]) - 1)]
                outs = [(x & ~0xFFFF) | 1 for x in ins] + [1]
            if ck == 0:
                outs = []
            if ck == 1:
                ins, outs = [], ins + outs      # always-fail: nothing may be written
            if ck == 2:
                outs = [o for o in outs if o != ((hi + 1) & ((1 << BITS[ty]) - 1))][:1] if ty in (U16, U32, U64, S16, S32, S64) else outs[:1]
                ins = ins + ([((hi + 1) & ((1 << BITS[ty]) - 1))] if ty in (U16, U32, U64) and hi + 1 < (1 << BITS[ty]) else [])
            if ck == 3:
                outs = outs[1:2]
            regs.append(reg(ty, a, ck, lo, hi, df))
            info.append(dict(ty=ty, addr=a, ck=ck, ins=ins, outs=outs, und=undecodable(ty)))
            a += SIZE[ty]
    return dict(be=be, areas=areas, regs=regs, info=info)


def table_line(t):
    return tinit(t['be'], t['areas'], t['regs'])


def words_of(t, ty, bits):
    """words of a value at ascending addresses, in the table's order"""
    ws = w4(bits)[4 - SIZE[ty]:]
    return ws if t['be'] else ws[::-1]


def block_for(t, rnd, addr, n, mode):
    """n words for a block at addr: per overlapped register a value chosen by mode
    ('in' keeps it valid, 'out' violates a constraint, 'und' does not decode, 'ones', 'zero', 'rand')"""
    ws = [rnd.choice([0, 0xFFFF, rnd.randint(0, 0xFFFF)]) for _ in range(n)]
    if mode == 'ones':
        return [0xFFFF] * n
    if mode == 'zero':
        return [0] * n
    if mode == 'rand':
        return ws
    for inf in t['info']:
        a, sz = inf['addr'], SIZE[inf['ty']]
        if a < addr + n and addr < a + sz:
            pool = inf['ins'] if mode == 'in' else (inf['outs'] if mode == 'out' else inf['und'])
            if mode == 'mixed':
                pool = rnd.choice([inf['ins'], inf['ins'], inf['outs'], inf['und']])
            if not pool:
                pool = inf['ins'] or [0]
            rw = words_of(t, inf['ty'], rnd.choice(pool))
            for k in range(sz):
                x = a + k
                if addr <= x < addr + n:
                    ws[x - addr] = rw[k]
    return ws


def _rebase_segment(seg, rnd, p):
    if rnd.random() >= p:
        return 0, seg
    f = list(map(int, seg[0].split()[1:]))
    na = f[1]
    top = 1
    for i in range(na):
        top = max(top, f[2 + 7 * i] + f[3 + 7 * i])
    q = 2 + 7 * na
    nr = f[q]
    for j in range(nr):
        top = max(top, f[q + 2 + 15 * j] + 4)
    mid = top // 2
    sh = rnd.choice([0xFFFFFFFF - top, 0xFFFFFFFF - top, 0x80000000 - mid, 0x7FFFFFFF - top, 0x10000 - mid, 0xFFFF0000 - mid, rnd.getrandbits(31)])
    out = [seg[0]]
    for l in seg[1:]:
        w = l.split()
        if w[0] in ('bwrite', 'bread', 'foreach'):
            if int(w[1]) + int(w[2]) + sh > 0xFFFFFFFF:
                continue
        elif w[0] == 'hexstr':
            if int(w[1]) + (int(w[2]) + 3) // 4 + sh > 0xFFFFFFFF:
                continue
        out.append(l)
    return sh, out


def rebased(sc, rnd, p=0.5):
    """Shift the tables of a script to high base addresses (harness event abase): RegTable.tla is translation invariant,
    the library should be too.  Requests whose exclusive end would pass 0xFFFFFFFF are dropped (wrapping is not specified)."""
    out, seg, cur = [], [], 0
    segs = []
    for l in sc:
        if l.startswith('tinit'):
            if seg:
                segs.append(seg)
            seg = [l]
        else:
            seg.append(l)
    if seg:
        segs.append(seg)
    for seg in segs:
        if not seg[0].startswith('tinit'):
            out += seg
            continue
        sh, body = _rebase_segment(seg, rnd, p)
        if sh != cur:
            out.append('abase %d %d' % (sh >> 16, sh & 0xFFFF))
            cur = sh
        out += body
    return out


def tmacro_line(be):
    """the table of harness/gen/macro_table.inc (written with the public construction macros) in the tinit vocabulary"""
    from macrotable import MACRO_AREAS, MACRO_REGS
    return 'tmacro' + tinit(be, MACRO_AREAS, MACRO_REGS)[5:]


def macro_script(rnd):
    from macrotable import MACRO_AREAS, MACRO_REGS
    out = []
    for be in (0, 1):
        sc = [tmacro_line(be)]
        for h, (ty, addr, ck, lo, hi, df) in enumerate(MACRO_REGS):
            m = (1 << BITS[ty]) - 1
            vals = [df, lo, hi, (lo - 1) & m, (hi + 1) & m, (lo + 1) & m, (hi - 1) & m] + boundary_values(ty)[:5]
            if ty in (F32, F64):
                vals = [df, lo, hi] + boundary_values(ty)[:8]
            for bits in vals:
                sc += [set_(h, ty, bits, 0), 'get %d' % h]
            sc.append(set_(h, (ty + 3) % 8, 1, 0))
        sc += ['bread 0 9', 'bread 198 6', 'bread 208 6', 'bwrite 200 1 5', 'bwrite 210 1 5', 'bwrite 220 2 1 2', 'bwrite 230 1 9', 'bread 219 4', 'get 48', 'get 49', 'get 50', 'get 51']
        out.append(sc)
    return out
