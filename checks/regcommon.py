"""Shared generators for the register-table checks (C01-C05)."""
import struct

SIZE = [1, 2, 4, 1, 2, 4, 2, 4]
U16, U32, U64, S16, S32, S64, F32, F64 = range(8)
BITS = [16, 32, 64, 16, 32, 64, 32, 64]


def w4(bits):
    bits &= (1 << 64) - 1
    return [(bits >> 48) & 0xffff, (bits >> 32) & 0xffff, (bits >> 16) & 0xffff, bits & 0xffff]


def f32(x):
    return struct.unpack('<I', struct.pack('<f', x))[0]


def f64(x):
    return struct.unpack('<Q', struct.pack('<d', x))[0]


def pat(ty, value):
    """bit pattern of a python number for type ty"""
    if ty == F32:
        return f32(value)
    if ty == F64:
        return f64(value)
    return value & ((1 << BITS[ty]) - 1)


def area(base, size, rd=1, wr=1, skip=0, hasw=1, kind=0):
    return (base, size, rd, wr, skip, hasw, kind)


def reg(ty, addr, ck=0, lo=0, hi=0, default=0):
    return (ty, addr, ck, lo, hi, default)


def tinit(be, areas, regs):
    a = [be, len(areas)]
    for ar in areas:
        a += list(ar)
    a.append(len(regs))
    for (ty, addr, ck, lo, hi, df) in regs:
        a += [ty, addr, ck] + w4(lo) + w4(hi) + w4(df)
    return 'tinit ' + ' '.join(map(str, a))


def set_(h, ty, bits, unsafe=0):
    return 'set %d %d %d %s' % (h, unsafe, ty, ' '.join(map(str, w4(bits))))


def bit(op, h, ty, bits):
    return '%s %d %d %s' % (op, h, ty, ' '.join(map(str, w4(bits))))


def bwrite(addr, words):
    return 'bwrite %d %d %s' % (addr, len(words), ' '.join(map(str, words)))


def boundary_values(ty):
    """bit patterns around the type's limits and, for floats, every IEEE class"""
    b = BITS[ty]
    m = (1 << b) - 1
    if ty in (U16, U32, U64):
        return [0, 1, 2, m, m - 1, 1 << (b - 1), (1 << (b - 1)) - 1, 0x0001 | (1 << (b - 2)), 0xFFFF & m, (0x10000 & m)]
    if ty in (S16, S32, S64):
        return [0, 1, m, m - 1, 1 << (b - 1), (1 << (b - 1)) + 1, (1 << (b - 1)) - 1, 2, 0xFFFE & m]
    if ty == F32:
        return [0x00000000, 0x80000000, 0x3f800000, 0xbf800000, 0x00800000, 0x7f7fffff, 0xff7fffff, 0x80800000,
                0x00000001, 0x007fffff, 0x80000001, 0x7f800000, 0xff800000, 0x7fc00000, 0x7f800001, 0xffc12345,
                0x40200000, 0x3fc00000, 0x40000001]
    return [0, 1 << 63, 0x3ff0000000000000, 0xbff0000000000000, 0x0010000000000000, 0x7fefffffffffffff,
            0xffefffffffffffff, 1, 0x000fffffffffffff, (1 << 63) | 1, 0x7ff0000000000000, 0xfff0000000000000,
            0x7ff8000000000000, 0x7ff0000000000001, 0xfff8000000012345, 0x4004000000000000, 0x4000000000000001]
