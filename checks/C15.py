"""C15 endian codecs: Endian.tla (lane model)."""
import random
import vf

META = dict(
    engine='Endian.tla',
    technique='TLA+ spec Endian.tla (a value is its sequence of octet lanes; store = lane permutation by order, load = inverse with sign extension, swap = lane reversal, range predicates); TLC checks store/load identity, neighbour preservation, returned address and swap involution on the sample family and emits prescribed results and the lane map of each of the 48 set/ref pairs; each case is replayed on the real inline functions, the lane maps drive exhaustive value sweeps inside the adapter, and recorded random calls are validated by TLC (EndianTrace.tla)',
    level='For 7 widths x 3 orders x {unsigned, signed} plus f32/f64 x 3 orders TLC prescribes the exact memory image (at every alignment 0..7 in a canary-surrounded block), the returned address and the loaded 64-bit value for a sample family with pairwise distinct lane tokens, sign patterns and extremes; the lane map it emits per function is applied by the adapter to every octet value in every lane, every single-bit and inverted single-bit value, all 65536 16-bit patterns (thorough: all 2^24, and all 2^32 for widths up to 32) and 20000 random values per function, checking memory image, neighbours, returned address and load-back on an exact-size block; swap helpers and range predicates are compared on the sample and edge families; random 64-bit values through all functions are validated by TLC.',
    note='Trusted: TLC, harness/endian.c (wrappers casting the 64-bit test value to each function-s parameter type; applying the lane map). TLA+ contributes least here: the model is a permutation and a sign rule; its value is that the oracle is independent of the generated C header. Swap helpers are given values that fit their width. Little-endian host (HostLE = 1) for the native order.',
)


def run(tier):
    v = vf.Verdict('C15', tier)
    vf.build()
    quick = tier != 'thorough'
    cases = []
    r = vf.tlc_must_pass('Endian.tla', 'EndianMC.cfg', 'endian', sink=lambda b: cases.append(b[3:]) if b.startswith('C;;') else None)
    v.add_tlc(r)
    sweeps = [c for c in cases if c.startswith('sweep')]
    others = [c for c in cases if not c.startswith('sweep')]
    if not quick:
        sw2 = []
        for c in sweeps:
            head, exp = c.split(' | ')
            f = head.split()
            kind, w, order = int(f[1]), int(f[2]), int(f[3])
            # all 2^32 values for the unsigned 32-bit big- and little-endian pair; all 2^24 low-bit patterns for every function
            if (w == 32 and kind == 0 and order in (0, 1)) or w <= 24:
                # sliced so that no single executor call runs anywhere near the watchdog, whatever the load of the machine
                nparts = 64 if w == 32 else 4
                sw2 += ['%s 2 %d %d | %s' % (head, part, nparts, exp) for part in range(nparts)]
            else:
                sw2 += ['%s 1 %d 4 | %s' % (head, part, exp) for part in range(4)]
        sweeps = sw2
    scripts = [others[i:i + 500] for i in range(0, len(others), 500)] + [[s] for s in sweeps]
    res = vf.run_scripts('endian', scripts, 'C15', name='endian', flavours=4, flav_every=7)
    v.exec_problems(res, 'endian')
    # the same cases on the build with the hand-written swap routines (UFW_USE_BUILTIN_SWAP off)
    res2 = vf.run_scripts('endian_manualswap', [others[i:i + 500] for i in range(0, len(others), 500)] + [[s] for s in sweeps if quick], 'C15', name='endianms', flavours=4, flav_every=7)
    v.exec_problems(res2, 'endian_manualswap')
    v.cov['evaluations'] += res2.checked
    per = 8 * 256 + 128 + 65536 + 20000
    v.cov['traces_validated_against_impl'] += len(cases)
    v.cov['evaluations'] += len(others) + len(sweeps) * per
    v.cov['distinct_nontrivial'] += len(others) + len(sweeps) * per
    v.cov['samples'] += [dict(kind='E1 cases from TLC', events=[c for c in others if c.startswith('set 1 24 1')][:2] + [c for c in others if c.startswith('ref 1 40 0')][:1] + sweeps[:2])]
    v.notes['e1'] = dict(cases=len(others), functions_swept=len(sweeps), values_per_function_at_least=per)
    rnd = random.Random(vf.seed())

    def e2():
        for _ in range(32 if quick else 320):
            sc = []
            for _ in range(300):
                kind = rnd.choice([0, 1, 2])
                w = rnd.choice([32, 64] if kind == 2 else [16, 24, 32, 40, 48, 56, 64])
                order = rnd.randint(0, 2)
                off = rnd.randint(0, 7)
                v8 = [rnd.choice([0, 255, 128, 127, rnd.randint(0, 255), rnd.randint(0, 255)]) for _ in range(8)]
                k = rnd.random()
                if k < 0.4:
                    sc.append('set %d %d %d %d %s' % (kind, w, order, off, ' '.join(map(str, v8))))
                elif k < 0.8:
                    sc.append('ref %d %d %d %d %s' % (kind, w, order, off, ' '.join(map(str, v8[:w // 8]))))
                elif k < 0.9:
                    ww = rnd.choice([16, 24, 32, 40, 48, 56, 64])
                    v = [0] * (8 - ww // 8) + v8[8 - ww // 8:]
                    sc.append('swap %d %s' % (ww, ' '.join(map(str, v))))
                else:
                    ww = rnd.choice([24, 40, 48, 56])
                    up = rnd.choice([[0] * (8 - ww // 8), [255] * (8 - ww // 8), v8[:8 - ww // 8]])
                    if ww == 24:
                        up = rnd.choice([[0] * 5, [255] * 5, [0, 0, 0, 0] + [rnd.randint(0, 255)], [255] * 4 + [rnd.randint(0, 255)]])
                    sc.append('inrange %d %d %s' % (rnd.randint(0, 1), ww, ' '.join(map(str, up + v8[len(up):]))))
            yield sc

    vf.trace_flow(v, 'EndianTrace.tla', 'EndianTrace.cfg', 'endian', e2(), 'endtrace', flavours=4)
    v.cov['rule'] = ('E1: TLC-prescribed cases (sample family x all functions x alignments) and per-function value sweeps driven by the TLC-emitted lane map; '
                     'E2: random calls validated by TLC. distinct_nontrivial = cases + swept values.')
    v.cov['exhaustive'] = True
    v.finish()
