"""C16 CRC-16/ARC: Crc16.tla (bitwise reference, table form, xor law on all enumerated (state, octet) pairs)."""
import random
import vf

META = dict(
    engine='Crc16.tla',
    technique='TLA+ spec Crc16.tla: TLC checks table form and xor-law against the bitwise CRC-16/ARC definition on every enumerated (state, octet) transition and emits the 65536-entry step table; the library is swept over all 2^24 pairs against it; recorded buffer checksums (every split, word variant) are recomputed by TLC (Crc16Trace.tla)',
    level='TLC treats the checksum as a state machine over all 65536 register values and checks, on every transition for the configured octet set (16 octets quick, all 256 thorough = 2^24 pairs), that the table form and the law Step(c,d)=Step(c xor d,0) agree with the bit-serial reference; the step table it emits is the oracle for an exhaustive sweep of the real update function over all 2^24 (state, octet) pairs, two-octet buffers and single words from many states; random buffers up to 4 KiB (every split position) and word buffers of all lengths 0..64 are recorded from the real code and recomputed by TLC.',
    note='Trusted: TLC and the CommunityModules Bitwise/FoldLeft operators, harness/crc.c. Host is little-endian (reported by the adapter and checked against the HostLE constant).',
)


def e2_scripts(rnd, nbuf, maxlen):
    sc = ['host']
    for i in range(nbuf):
        n = rnd.choice([0, 1, 2, 3, 9, 16, 17, 255, 256, rnd.randint(0, maxlen), rnd.randint(0, maxlen)])
        n = min(n, maxlen)
        c = rnd.choice([0, 0, 0xFFFF, rnd.randint(0, 65535)])
        sc.append('crc %d %d %s' % (c, n, ' '.join(str(rnd.randint(0, 255)) for _ in range(n))))
        if len(sc) >= 12:
            yield sc
            sc = []
    for n in range(0, 65):
        c = rnd.choice([0, 0xFFFF, rnd.randint(0, 65535)])
        sc.append('crcw %d %d %s' % (c, n, ' '.join(str(rnd.randint(0, 65535)) for _ in range(n))))
        if len(sc) >= 12:
            yield sc
            sc = []
    if sc:
        yield sc


def big_scripts(rnd, quick):
    """buffers of 64 KiB and beyond (a length counter narrower than size_t shows only there)"""
    sc = []
    for n in ([65534, 65536, 65538, 70000] if quick else [32768, 65534, 65536, 65538, 70000, 131072, 131074, 200000, 262146]):
        sc.append('crcbig %d %d %d %d' % (rnd.choice([0, 0xFFFF, rnd.randint(0, 65535)]), n, rnd.choice([1, 7, 251]), rnd.randint(0, 255)))
    # ... and of many MiB, more than any stack holds (a copy of the input in an automatic array shows only there)
    sc.append('crchuge %d %d %d %d' % (rnd.randint(0, 65535), 12 if quick else 48, rnd.choice([1, 7, 251]), rnd.randint(0, 255)))
    return [sc]


def run(tier):
    v = vf.Verdict('C16', tier)
    vf.build()
    quick = tier != 'thorough'
    table = {}

    def sink(body):
        if body.startswith('C;;t '):
            _, c, val = body.split(' ')
            table[int(c)] = int(val)

    r = vf.tlc_must_pass('Crc16.tla', 'Crc16MC.cfg' if quick else 'Crc16MCfull.cfg', 'crc', sink=sink, heap='12g')
    v.add_tlc(r)
    if len(table) != 65536:
        vf.die('TLC emitted %d table entries' % len(table))
    tab = [table[i] for i in range(65536)]
    load = ['table %d %s' % (b, ' '.join(str(x) for x in tab[b:b + 4096])) for b in range(0, 65536, 4096)]
    stride = 256 if quick else 16
    scripts = [load + ['sweep | 0 -1 -1']]
    for first in range(0, stride, max(1, stride // 16)):
        scripts.append(load + ['sweep2 %d %d | 0 0' % (first, stride)])
    # a few single steps with explicit prescribed results, as readable samples
    rnd = random.Random(vf.seed())
    smp = []
    for _ in range(2000):
        c, d = rnd.randint(0, 65535), rnd.randint(0, 255)
        smp.append('step %d %d | %d' % (c, d, tab[c ^ d]))
    scripts.append(smp)
    res = vf.run_scripts('crc', scripts, 'C16', name='crc')
    v.exec_problems(res, 'crc')
    pairs2 = (65536 // stride) * 65536
    v.cov['traces_validated_against_impl'] += len(scripts)
    v.cov['evaluations'] += (1 << 24) + 2 * pairs2 + 2000
    v.cov['distinct_nontrivial'] += (1 << 24) + pairs2
    v.cov['samples'] += [dict(kind='E1 step (state octet | prescribed next state)', events=smp[:5]),
                         dict(kind='E1 sweep', events=['sweep | 0 -1 -1  (disagreements over all 2^24 pairs, first pair)',
                                                       'sweep2 0 %d | 0 0' % stride])]
    v.notes['e1'] = dict(table_entries=65536, step_pairs_swept=1 << 24, two_octet_buffers=pairs2, single_words=pairs2,
                         tlc_transitions_checked=r.generated)
    vf.trace_flow(v, 'Crc16Trace.tla', 'Crc16Trace.cfg', 'crc',
                  list(e2_scripts(rnd, 150 if quick else 6000, 1024 if quick else 4096)) + big_scripts(rnd, quick), 'crctrace')
    v.cov['rule'] = ('E0: TLC checks table form and xor law against the bit-serial definition on all 65536 states x the configured octets. '
                     'E1: library update step on all 2^24 (state, octet) pairs vs E0[c xor d] from TLC; all two-octet buffers and single words '
                     'from every stride-th state. E2: random buffers (each split at every position inside the adapter) and word buffers '
                     'of length 0..64 recomputed by TLC. distinct_nontrivial = distinct (state, input) pairs swept.')
    v.cov['exhaustive'] = True
    v.assumptions += ['the law Step(c,d)=Step(c xor d,0) (TLC-checked) justifies checking 2^24 pairs against a 2^16 table',
                      'little-endian host']
    v.finish()
