"""C13 length-prefix framing: LengthPrefix.tla (position-coded payloads, six prefix kinds, buffer states, chunk lists)."""
import random
import vf

META = dict(
    engine='LengthPrefix.tla',
    technique='TLA+ spec LengthPrefix.tla: TLC enumerates every encoder entry point over all small buffer states / chunk lists / prefix kinds and boundary lengths, and decoders over destination capacities and source fragmentations, checks encode-decode agreement per case and emits the prescribed octets; each case is replayed on the real code (position-coded payloads, exact-size blocks, ASan); recorded random calls validated by TLC (LengthPrefixTrace.tla)',
    level='TLC enumerates, for the six prefix kinds, every byte-buffer state (size, used, offset) up to the size bound for the buffer encoders (into a prefix object and into a sink, whole and first-n), every chunk list up to the bound incl. empty chunks, the length table (1..20, varint and fixed-width boundaries, 1100, kind maxima and maxima+1 as 64-bit words), decoding into memory of capacity len-1/len/len+1 and into every buffer state, and two consecutive frames under every source fragment size, and checks per case that what the encoder emits is the kind-s prefix followed by exactly the designated octets and decodes to the same payload; the prescribed observation of each case is compared with the real code on exact-size blocks.',
    note='Trusted: TLC, harness/lenp.c (position-coded blocks, fragmenting chunk source, recording sink). Frames of length 0 are outside C13 (lengths from 1). On refusal only the code class is compared. Failure codes other than out-of-memory are compared as "failure".',
)

OPS_B = ['benc', 'bsink']


def e2(rnd, count, big):
    # the one-octet kind's maximum with real buffers: 255 is framed, 256 is refused and the buffer stays as it was
    sc = []
    for off in (0, 7):
        for n in (255, 256, 257):
            for op in ('bencn', 'bsinkn'):
                sc.append('%s 1 300 %d %d %d' % (op, 290 + off, off, n))
            for op in ('benc', 'bsink'):
                sc.append('%s 1 300 %d %d' % (op, n + off, off))
    sc += ['msinkhuge %d %d' % (k, d) for k in range(6) for d in (0, 1, 8, 9, 10, 200)]
    yield sc
    # varint prefixes of five to ten octets: announcements of 2^28 .. 2^64-1 (no destination has that much room: out of memory, nothing
    # written) and non-minimal encodings of small lengths (trailing zero groups), which decode like the minimal ones
    sc = []
    longs = [[0x80] * 9 + [0x01], [0xff] * 9 + [0x01], [0x80] * 8 + [0x01], [0xff] * 8 + [0x7f], [0x80, 0x80, 0x80, 0x80, 0x01], [0xff, 0xff, 0xff, 0xff, 0x0f],
             [0x80, 0x80, 0x80, 0x80, 0x80, 0x80, 0x80, 0x40], [0x85, 0x80, 0x80, 0x80, 0x10], [0xff] * 7 + [0x7f], [0x81] * 9 + [0x00]]
    longs += [[0x80 | rnd.randint(0, 127) for _ in range(rnd.randint(4, 8))] + [rnd.randint(1, 127)] for _ in range(6)]
    small = [[0x85, 0x80, 0x80, 0x80, 0x80, 0x00], [0x83] + [0x80] * 8 + [0x00], [0x81, 0x81, 0x80, 0x80, 0x00], [0xff, 0x80, 0x80, 0x80, 0x80, 0x80, 0x00]]
    for pre in longs + small:
        n = (pre[0] & 127) + ((pre[1] & 127) << 7) if pre in small else 5
        stream = pre + [(i + 1) % 256 for i in range(n)]
        for f in (1, 3, 100000):
            for cap in (1, n, n + 7, 300):
                sc.append('mdec 0 %d %d %d %s' % (cap, f, len(stream), ' '.join(map(str, stream))))
                sc.append('bdec 0 %d %d %d %d %d %s' % (cap + 4, 4, rnd.randint(0, 4), f, len(stream), ' '.join(map(str, stream))))
            sc.append('sdec 0 %d %d %s' % (f, len(stream), ' '.join(map(str, stream))))
    yield sc
    for _ in range(count):
        sc = []
        for _ in range(12):
            k = rnd.randint(0, 5)
            op = rnd.choice(['benc', 'bencn', 'bsink', 'bsinkn', 'msink', 'cuse', 'csink', 'mdec', 'bdec', 'sdec'])
            size = rnd.choice([1, 2, 5, 40, 300, rnd.randint(1, big)])
            used = rnd.randint(1, size)
            off = rnd.randint(0, used - 1)
            if op in ('benc', 'bsink'):
                sc.append('%s %d %d %d %d' % (op, k, size, used, off))
            elif op in ('bencn', 'bsinkn'):
                sc.append('%s %d %d %d %d %d' % (op, k, size, used, off, rnd.choice([1, max(1, used - off), used - off + 1, rnd.randint(1, size)])))
            elif op == 'msink':
                sc.append('msink %d %d' % (k, rnd.choice([1, 127, 128, 255, 256, rnd.randint(1, big)])))
            elif op in ('cuse', 'csink'):
                nc = rnd.randint(1, 5)
                parts = []
                for _ in range(nc):
                    s = rnd.randint(1, 60)
                    u = rnd.randint(0, s)
                    parts += [s, u, rnd.randint(0, u)]
                if all(parts[i + 1] == parts[i + 2] for i in range(0, len(parts), 3)):
                    parts[1], parts[2] = parts[0], 0
                act = rnd.randint(0, nc - 1)
                if all(parts[3 * i + 1] == parts[3 * i + 2] for i in range(act, nc)):
                    act = 0
                sc.append('%s %d %d %d %s' % (op, k, act, nc, ' '.join(map(str, parts))))
            else:
                n = rnd.choice([1, 2, 100, 127, 128, 255, 256, rnd.randint(1, min(big, 2000))])
                pl = [(i + 1) % 256 for i in range(n)]
                pre = prefix(k, n)
                if pre is None:
                    continue
                stream = pre + pl
                f = rnd.choice([1, 2, 3, 7, 64, 100000])
                if op == 'mdec':
                    sc.append('mdec %d %d %d %d %s' % (k, rnd.choice([n - 1, n, n + 1, n + 50]), f, len(stream), ' '.join(map(str, stream))))
                elif op == 'bdec':
                    s = rnd.choice([n, n + 3, n + 40, max(1, n - 1)])
                    u = rnd.randint(0, min(s, 40))
                    sc.append('bdec %d %d %d %d %d %d %s' % (k, s, u, rnd.randint(0, u), f, len(stream), ' '.join(map(str, stream))))
                else:
                    n2 = rnd.randint(1, 50)
                    pre2 = prefix(k, n2)
                    stream2 = stream + pre2 + [(i + 1) % 256 for i in range(n2)]
                    sc.append('sdec %d %d %d %s' % (k, f, len(stream2), ' '.join(map(str, stream2))))
        if sc:
            yield sc


def prefix(k, n):
    if k == 0:
        out = []
        while True:
            g = n & 0x7f
            n >>= 7
            if n:
                out.append(g | 0x80)
            else:
                out.append(g)
                return out
    if k == 1:
        return [n] if n <= 255 else None
    if k in (2, 4):
        if n > 65535:
            return None
        return [n & 255, n >> 8] if k == 2 else [n >> 8, n & 255]
    b = [n & 255, (n >> 8) & 255, (n >> 16) & 255, (n >> 24) & 255]
    return b if k == 3 else b[::-1]


def run(tier):
    v = vf.Verdict('C13', tier)
    vf.build()
    quick = tier != 'thorough'
    cases = []
    r = vf.tlc_must_pass('LengthPrefix.tla', 'LengthPrefixMC.cfg' if quick else 'LengthPrefixMCt.cfg', 'lenp',
                         sink=lambda b: cases.append(b[3:]) if b.startswith('C;;') else None, heap='16g')
    v.add_tlc(r)
    res = vf.run_scripts('lenp', [[c] for c in cases], 'C13', name='lenp', flavours=3)
    v.exec_problems(res, 'lenp')
    v.cov['traces_validated_against_impl'] += len(cases)
    v.cov['evaluations'] += res.checked
    v.cov['distinct_nontrivial'] += sum(1 for c in cases if not c.split(' | ')[1].startswith('-1'))
    v.cov['samples'] += [dict(kind='E1 cases from TLC', events=[c for c in cases if c.startswith('bsinkn 0')][40:42] + [c for c in cases if c.startswith('bdec 4')][30:31] + [c for c in cases if c.startswith('menc 3')][14:16])]
    ops = sorted(set(c.split(' ')[0] for c in cases))
    v.notes['e1'] = dict(cases=len(cases), per_op={o: sum(1 for c in cases if c.startswith(o + ' ')) for o in ops})
    hs = []
    for rnd in vf.rounds(tier, 20):
        hs += list(e2(rnd, 64 if quick else 500, 1200 if quick else 6000))
    vf.trace_flow(v, 'LengthPrefixTrace.tla', 'LengthPrefixTrace.cfg', 'lenp', hs, 'lenptrace', flavours=3)
    v.cov['rule'] = ('E0/E1: all cases of the enumerated family (buffer states up to MaxSize, chunk lists up to MaxChunks, length table, capacities around the length, '
                     'fragment sizes); distinct_nontrivial = cases whose prescribed outcome is not a refusal. E2: random states and lengths up to several thousand octets.')
    v.cov['exhaustive'] = True
    v.finish()
