"""C01 typed set/get: RegTable.tla (SetResult/GetResult, byte order, constraint kinds, float classes, handles)."""
import random
import vf
from regcommon import *

META = dict(
    engine='RegTable.tla',
    technique='TLA+ spec RegTable.tla (values as 16-bit word sequences, order and IEEE-754 class from the bit pattern, storage in table word order); register_set / register_set_unsafe / register_get are driven over every type x constraint kind x byte order x area kind with boundary values, all float classes, every handle incl. one past the end, all 8x8 type pairs and all 65536 values of the 16-bit types; TLC validates every recorded call (verdict, whole memory image, value read back) with RegTableTrace.tla',
    level='For each of the 8 register types, 6 constraint kinds (none, always-fail, min, max, range, callback), both byte orders and memory-/callback-backed areas a table with the register between two neighbour registers is initialised by the real code; checked and unchecked sets of the boundary family (bounds and bounds +-1, type limits, 0, +-1, every float class incl. +-0, min/max normal and subnormal, +-infinity, quiet/signalling NaN with payload), sets through every handle (valid, one past the end, beyond), all 64 value-type/register-type pairs, and for the 16-bit types all 65536 values (accept set reported as intervals) are executed; TLC validates each recorded call: success iff type matches, constraint holds and the float is zero or normal; storage unchanged on refusal; bad handle reported as no-such-entry by both variants; stored words are the value in table order; get returns the value.',
    note='Trusted: TLC, harness/regtab.c (value <-> word projection; the 65536-value sweep compares storage/read-back inside the adapter and reports the accept set, which TLC recomputes from the constraint). Refusal classes other than no-such-entry are not distinguished (C01 names none). The unchecked variant is only given correctly typed values.',
)


def tables(rnd, quick):
    for be in (0, 1):
        for kind in (0, 1):
            for ty in range(8):
                for ck in range(6):
                    if quick and rnd.random() < 0.5 and ck in (0, 1):
                        continue
                    lo, hi, df, ins, outs = value_set(ty, rnd)
                    if ck == 5:
                        df = (df & ~0xFFFF) | 2
                    sz = SIZE[ty]
                    rd, wr = rnd.choice([(1, 1), (1, 1), (0, 1), (1, 0)])      # also write-only and read-only-by-flag areas: typed access does not depend on the flags
                    hasw = rnd.choice([1, 1, 1, 0])                             # ... and areas without a write function: every set is refused, nothing is stored
                    areas = [area(2, 1 + sz + 1, rd=rd, wr=wr, hasw=hasw, kind=kind)]
                    regs = [reg(U16, 2, 0, 0, 0, 0x5555), reg(ty, 3, ck, lo, hi, df), reg(U16, 3 + sz, 0, 0, 0, 0xAAAA)]
                    yield be, ty, ck, lo, hi, ins, outs, areas, regs


def scripts(rnd, quick):
    for sc in macro_script(rnd):          # a table written with the library's own construction macros
        yield sc
    # tables that have areas but not a single register: every handle is "no such entry" for both variants and for get
    for be in (0, 1):
        for areas in ([area(2, 3)], [area(2, 2, kind=1), area(4, 3)], [area(1, 0), area(1, 2)]):
            sc = [tinit(be, areas, [])]
            for h in (0, 1, 2, 65535, 65536, 2 ** 31 - 1, 2 ** 32 - 1):
                for ty in (U16, rnd.randrange(8), F32):
                    sc += [set_(h, ty, boundary_values(ty)[2], 0), set_(h, ty, boundary_values(ty)[2], 1), 'get %d' % h]
            yield rebased(sc, rnd, 0.3)
    for be, ty, ck, lo, hi, ins, outs, areas, regs in (list(tables(rnd, quick)) if quick else list(tables(rnd, quick)) + list(tables(rnd, quick)) + list(tables(rnd, quick))):
        sc = [tinit(be, areas, regs), 'get 0', 'get 1', 'get 2']
        m = (1 << BITS[ty]) - 1
        vals = list(boundary_values(ty)) + ins + outs + [(lo - 1) & m, (lo + 1) & m, (hi - 1) & m, (hi + 1) & m]
        vals += [rnd.getrandbits(BITS[ty]) for _ in range(6 if quick else 120)]
        if ty in (F32, F64):
            vals += undecodable(ty)
        for bits in vals:
            un = rnd.choice([0, 0, 1])
            sc += [set_(1, ty, bits, un), 'get 1']
        for h in (0, 1, 2, 3, 4, 7, 65535, 65536, 2 ** 31 - 1):
            sc += [set_(h, regs[h][0] if h < 3 else ty, 2, 0), set_(h, regs[h][0] if h < 3 else ty, 2, 1), 'get %d' % h]
        for vt in range(8):
            sc += [set_(1, vt, boundary_values(vt)[2], 0)]
        if ty in (U16, S16):
            sc += ['sweep16 1 0', 'get 1', 'sweep16 1 1', 'get 1', 'sanitise' if ck != 1 and areas[0][5] == 1 else 'get 0']
        yield rebased(sc, rnd, 0.3)


def run(tier):
    v = vf.Verdict('C01', tier)
    vf.build()
    quick = tier != 'thorough'
    ss = []
    for rnd in vf.rounds(tier, 4):
        ss += list(scripts(rnd, quick))
    vf.trace_flow(v, 'RegTableTrace.tla', 'RegTableTrace.cfg', 'regtab', ss, 'sg')
    nsweeps = sum(1 for s in ss for l in s if l.startswith('sweep16'))
    v.cov['evaluations'] += 65536 * nsweeps
    v.cov['distinct_nontrivial'] += len(set((i, l) for i, s in enumerate(ss) for l in s if l.startswith('set'))) + 65536 * nsweeps
    v.notes['tables'] = len(ss)
    v.notes['sweeps_16bit'] = nsweeps
    v.cov['rule'] = ('8 types x 6 constraint kinds x 2 byte orders x 2 area kinds (quick: half of the none/always-fail configurations); per table the boundary family, all handles, '
                     'all value-type pairs; for u16/s16 all 65536 values through both variants. distinct_nontrivial = distinct (table, set call) pairs + swept values.')
    v.finish()
