"""X12 (extra): the bit macros of bit-operations.h (BitOps.tla) - words as sets of bit positions; TLC checks the field laws and every case is replayed."""
import vf

META = dict(not_applicable='extra behaviour beyond the listed properties; run by bin/extras')


def run(tier):
    v = vf.Verdict('X12', tier)
    vf.build()
    cases = []
    r = vf.tlc_must_pass('BitOps.tla', 'BitOpsMC.cfg', 'bitops', sink=lambda b: cases.append(b[3:]) if b.startswith('C;;') else None)
    v.add_tlc(r)
    res = vf.run_scripts('bitops', [cases[i:i + 500] for i in range(0, len(cases), 500)], 'X12', name='bitops')
    v.exec_problems(res, 'bitops')
    v.cov['traces_validated_against_impl'] += len(cases)
    v.cov['evaluations'] += res.checked
    v.cov['distinct_nontrivial'] += len(cases)
    v.cov['rule'] = ('three families (unsigned 32, long 64, long long 64): every BIT(n), every ONES(n, o), GET on 7 containers x 10 widths x 9 offsets, MASK/WORD for n up to 300, '
                     'ISSET / ISSET_ANY / SET / CLEAR / TOGGLE on 7 x 9 container-mask pairs (also on 8/16/32-bit containers), SETo; CaseInv: insert-then-extract and '
                     'extract-then-insert are identities, toggle is an involution, clear and the mask are disjoint, one bit one place in long / long long bit arrays; all cases replayed under UBSan')
    v.cov['exhaustive'] = True
    v.finish()
