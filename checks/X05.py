"""X05 (extra): the continuable sink (ContSink.tla) - complete state graph, every edge replayed on the real code."""
import vf

META = dict(not_applicable='extra behaviour beyond the listed properties; run by bin/extras')


def run(tier):
    v = vf.Verdict('X05', tier)
    vf.build()
    vf.graph_flow(v, 'ContSink.tla', 'ContSinkMC.cfg', 'cs', 'cs', depth=5, budget=30000, walks=100, walklen=20)
    v.cov['rule'] = ('complete state graph of ContSink.tla (allocator block 0/2/5, fallback none/1/3, reserve 0/2, writes of 1..4 octets, allocation success/failure); '
                     'invariants KeepsTheStartOfTheFrame, NothingLostWithoutNotice, ErrorMeansLoss, CountsTheWholeFrame, ErrorSticks, AcceptsEverything; every edge and all paths replayed')
    v.cov['exhaustive'] = True
    v.finish()
