"""C06 valid requests executed once and answered faithfully: Regp.tla ReplyFor/BackendCall via RegpTrace.tla."""
import random
import vf
from regpcommon import *

META = dict(
    engine='Regp.tla',
    technique='TLA+ spec RegpOps.tla / RegpReqMC.tla (TLC enumerates well-formed requests x 12 backend verdicts x transports x word sizes, checks C06Holds - one access iff word size matches, one matching reply echoing sequence number and address, datum where prescribed - on the prescribed outcome of each, and emits every case for replay on the real library) and Regp.tla (BackendCall: the one access a valid request causes; ReplyFor: the response the document prescribes for each backend verdict); regp_recv + regp_process of the real library are driven with every request kind x addresses x block sizes x payloads x sequence numbers x all 12 backend verdicts x both transports x both memory word sizes (incl. word-size mismatch, responses and meta messages as input), and TLC validates each recorded run: backend call log, exact reply octets, allocator ledger',
    level='Each recorded run (one framed request arriving, receive, process, free) is validated by TLC against the specification: exactly one backend access with the request-s address, block size and exactly the received payload; exactly one reply whose octets are those of the prescribed response (acknowledgement with exactly the delivered words / no payload for writes; error response in octet semantics with the reported address or the buffer size as big-endian 32-bit payload where the document prescribes one; sequence number and address echoed); word-size mismatch answered without touching memory; responses and meta messages cause neither access nor reply.',
    note='Trusted: TLC, harness/regp.c (recording backend, sink, ledger allocator), my reading of doc/regp.txt in Regp.tla. Each run uses a fresh protocol instance (the responder keeps no state between requests). Read requests larger than the receive block are the subject of C09.',
)


def scripts(rnd, quick):
    sc = []
    addrs = [0, 1, 0xFFFF, 0x10000, 0xFFFFFFFF, 0xC0DBDCDD]
    if not quick:
        addrs += [0x00010001, 0x7FFFFFFF, 0x80000000, 0xDBC0DBC0, 0x0000C000, 0xFFFF0000]
    seqs = [0, 1, 0xFFFF, 0xC0DB]
    cap = 192
    for tr in (0, 1):
        for mem16 in (0, 1):
            for ws16 in (0, 1):
                for write in (0, 1):
                    for addr in addrs:
                        for n in (([0, 1, 2, 5, 20] if addr in (0, 0xC0DBDCDD) else [1, 3]) if quick else [0, 1, 2, 3, 4, 5, 8, 20, 40]):
                            for verdict in (range(12) if n in (1, 2, 20) or not quick else [0, rnd.randint(1, 11)]):
                                seq = rnd.choice(seqs)
                                ws = 2 if ws16 else 1
                                pl = [rnd.choice([192, 219, 220, 221, 0, 255, rnd.randint(0, 255)]) for _ in range(n * ws)] if write else []
                                w = wire(tr, request(tr, write, ws16, seq, addr, n, pl))
                                va = rnd.choice([addr, 0, 0xFFFFFFFF, 0x00C000DB])
                                data = [rnd.choice([192, 219, rnd.randint(0, 255)]) for _ in range(n * (2 if mem16 else 1))]
                                sc.append(rx(tr, mem16, cap, w, verdict=verdict, vaddr=va, data=data))
            # no memory attached at all (the state after init): every executable request is answered "unmapped" at its own address
            if mem16 == 1:
                for write in (0, 1):
                    for ws16 in (0, 1):
                        for n in (0, 1, 3):
                            for addr in (0, 0x1234, 0xFFFF0001, 0xC0DBDCDD):
                                ws = 2 if ws16 else 1
                                pl = [rnd.randint(0, 255) for _ in range(n * ws)] if write else []
                                sc.append(rx(tr, 2, cap, wire(tr, request(tr, write, ws16, rnd.choice(seqs), addr, n, pl)), verdict=0, data=[1, 2, 3, 4, 5, 6]))
            # reads whose answer fits the block exactly / by one word more or less (16-bit and 8-bit semantics alike)
            for ws16 in (0, 1):
                room = cap - (14 if tr == 0 else 12)
                for n in sorted(set([room // (2 if ws16 else 1) + d for d in (-1, 0, 1)])):
                    sc.append(rx(tr, mem16, cap, wire(tr, request(tr, 0, ws16, rnd.choice(seqs), rnd.choice(addrs), n)), verdict=0,
                                 data=[rnd.randint(0, 255) for _ in range(200)]))
            # reads of 2^16 .. 2^32 - 1 words: no buffer can hold the answer - transmit overflow, memory untouched (also C09)
            for ws16 in (0, 1):
                for n in (0x10000, 0x7FFFFFFF, 0x80000000, 0x80000001, 0x80000005, 0x8000FFFF, 0xFFFFFFFF):
                    sc.append(rx(tr, mem16, cap, wire(tr, request(tr, 0, ws16, rnd.choice(seqs), rnd.choice(addrs), n)), verdict=0, data=[7] * 16))
            # ... also when they are malformed in a way that would be answered if they were requests: payload that does not match the
            # block size, payload that does not match its checksum
            for ftype in (T_RRESP, T_WRESP, T_META):
                for bs, pl in ((3, [1, 2, 3, 4]), (0, [9]), (2, [7] * (2 if not mem16 else 3))):
                    meta = 1 if ftype == T_META else 0
                    o = frame(ftype, opts_for(tr, False, True), meta, 5, 9, bs, pl)
                    sc.append(rx(tr, mem16, cap, wire(tr, o)))
                if tr == 0:
                    o = frame(ftype, opts_for(tr, False, True), 1 if ftype == T_META else 0, 6, 9, 4, [1, 2, 3, 4], plcrc=0x1234)
                    sc.append(rx(tr, mem16, cap, wire(tr, o)))
            # non-requests: responses and meta messages must cause neither access nor reply
            for ftype, meta in ((T_RRESP, 0), (T_WRESP, 0), (T_RRESP, 7), (T_WRESP, 11), (T_META, 1), (T_META, 2)):
                pl = [1, 2, 3, 4] if meta == 7 else []
                o = frame(ftype, opts_for(tr, False, len(pl) > 0), meta, 5, 9, len(pl), pl)
                sc.append(rx(tr, mem16, cap, wire(tr, o)))
    rnd.shuffle(sc)
    if quick:
        sc = sc[:6000]
    for i in range(0, len(sc), 300):
        yield sc[i:i + 300]
    # sessions: several requests back to back on one stream and one protocol instance, in arbitrary interleavings
    for si in range(60 if quick else 600):
        tr, mem16 = rnd.randint(0, 1), rnd.randint(0, 1)
        units = []
        seq = rnd.choice([0, 65534, 65535, rnd.randint(0, 65535)])
        for _ in range(rnd.randint(2, 8) if si >= 2 else 300):          # two long-lived instances: 300 cycles each
            # sequence numbers as requesters produce them: counting up (and wrapping), the same number once more (a requester that
            # started over, two requesters on one link), or anything - a responder executes every valid request it receives
            seq = rnd.choice([seq, seq, (seq + 1) & 0xFFFF, (seq + 1) & 0xFFFF, rnd.randint(0, 65535)])
            write = rnd.randint(0, 1)
            ws16 = rnd.choice([mem16, mem16, mem16, 1 - mem16])
            ws = 2 if ws16 else 1
            n = rnd.randint(0, 6)
            pl = [rnd.choice([192, 219, 220, 221, rnd.randint(0, 255)]) for _ in range(n * ws)] if write else []
            o = request(tr, write, ws16, seq, rnd.getrandbits(32), n, pl)
            if rnd.random() < 0.15:
                o[rnd.randrange(2, len(o))] ^= 1 << rnd.randint(0, 7)          # a corrupted frame in between
            units.append((o, dict(verdict=rnd.choice([0, 0, 0, 7, 8, 9, 10, 11]), vaddr=rnd.getrandbits(32),
                                  data=[rnd.randint(0, 255) for _ in range(n * (2 if mem16 else 1))])))
        yield session(rnd, tr, mem16, 192, units)


def run(tier):
    v = vf.Verdict('C06', tier)
    vf.build()
    quick = tier != 'thorough'
    cases = []
    r0 = vf.tlc_must_pass('RegpReqMC.tla', 'RegpReqMCq.cfg' if quick else 'RegpReqMC.cfg', 'regpreq', heap='16g',
                          sink=lambda b: cases.append(flavoured(b[3:])) if b.startswith('C;;') else None)
    v.add_tlc(r0)
    res1 = vf.run_scripts('regp', [cases[i:i + 500] for i in range(0, len(cases), 500)], 'C06', name='rqc', flavours=3, flav_every=25)
    v.exec_problems(res1, 'regp')
    v.cov['traces_validated_against_impl'] += len(cases)
    v.cov['evaluations'] += res1.checked
    v.cov['samples'].append(dict(kind='E1 case from TLC (RegpReqMC.tla): rx call | allowed observations', events=cases[1000:1002]))
    v.notes['e0_e1'] = dict(model='RegpReqMC.tla', cases=len(cases), invariant='C06Holds')
    ss = []
    for rnd in vf.rounds(tier, 8):
        ss += list(scripts(rnd, quick))
    vf.trace_flow(v, 'RegpTrace.tla', 'RegpTrace.cfg', 'regp', ss, 'req', flavours=3)
    v.cov['distinct_nontrivial'] += len(set(l for s in ss for l in s))
    v.cov['rule'] = ('read/write x 8/16-bit requests x 2 transports x 2 memory word sizes x boundary addresses x block sizes x 12 backend verdicts, plus responses/meta as input; '
                     'each recorded run validated by TLC (RxOK). distinct_nontrivial = distinct runs.')
    v.finish()
