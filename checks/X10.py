"""X10 (extra): the bounded string functions of src/compat (Strl.tla) - TLC enumerates memory x source x size, checks the laws a user relies on, every case is replayed."""
import vf

META = dict(not_applicable='extra behaviour beyond the listed properties; run by bin/extras')


def run(tier):
    v = vf.Verdict('X10', tier)
    vf.build()
    cases = []
    r = vf.tlc_must_pass('Strl.tla', 'StrlMC.cfg', 'strl', sink=lambda b: cases.append(b[3:]) if b.startswith('C;;') else None)
    v.add_tlc(r)
    res = vf.run_scripts('strl', [cases[i:i + 500] for i in range(0, len(cases), 500)], 'X10', name='strl')
    v.exec_problems(res, 'strl')
    v.cov['traces_validated_against_impl'] += len(cases)
    v.cov['evaluations'] += res.checked
    v.cov['distinct_nontrivial'] += len(cases)
    v.cov['rule'] = ('every destination memory over {0, a, b} up to 4 octets (with and without terminator) x every size up to its length x every source over {a, b} up to 4; '
                     'CaseInv: result = length tried, terminated inside the size, prefix of the concatenation, truncation iff result >= size, nothing written outside the size, '
                     'a destination without terminator left alone; CatAfterCpy; all cases replayed on exact-size heap blocks under ASan')
    v.cov['exhaustive'] = True
    v.finish()
