"""C05 constraints as invariant of checked-operation histories: RegTableMC.tla (E0/E1) + random histories (E2)."""
import random
import vf
from regcommon import *

META = dict(
    engine='RegTable.tla',
    technique='TLA+ spec RegTable.tla / RegTableMC.tla: TLC explores every history (up to a depth bound) of typed set, bit set/clear, block write, sanitise and out-of-band corruption on four fixed tables with operands at the constraint boundaries, checking ConstraintInv, RefusedUnchanged, BitOpsExact and SanitiseRestores; every transition/path of that graph is replayed on the real table; long random histories on generated tables incl. corruption bursts are recorded from the real code and validated by TLC (RegTableTrace.tla, invariant ConstraintInv at every step)',
    level='TLC exhaustively explores the bounded-depth state graph of four tables (both byte orders, memory- and callback-backed, u16/u32/u64/s16/f32 registers with range/min/max/callback constraints, a hole and a read-only area) under all checked operations with boundary operands and corruption followed by sanitise, and checks that every constrained register satisfies its constraint in every state reachable without pending corruption, that refused operations change nothing, that bit operations change exactly the requested bits of unsigned registers and that sanitise restores exactly the offending registers to their defaults and clears all touched marks; every transition is executed on the real code and compared (code, memory image, touched marks). Random histories of several hundred operations with 64-bit operands and corruption bursts on generated tables are validated by TLC with the same invariant evaluated after every step.',
    note='Trusted: TLC, harness/regtab.c. The invariant is claimed for registers of areas that load defaults at initialisation. Sanitise is exercised on tables whose registers use no/min/max/range/callback constraints, whose areas are writable by the table and whose defaults are acceptable (as the statement restricts it).',
)


def histories(rnd, count, nops, types):
    for ti in range(count):
        t = make_table(rnd, types, shape=SHAPES[ti] if ti < len(SHAPES) else None)
        t['areas'] = [a[:4] + (a[4], 1, a[6]) for a in t['areas']]          # every area can be written by the table (sanitise must be able to restore)
        t['regs'] = [r if r[2] != 1 else (r[0], r[1], 4, r[3], r[4], r[5]) for r in t['regs']]   # no always-fail registers
        for inf in t['info']:
            if inf['ck'] == 1:
                inf['ck'] = 4
        if not t['regs']:
            continue
        sc = [table_line(t)]
        lo = max(0, t['areas'][0][0] - 1)
        hi = t['areas'][-1][0] + t['areas'][-1][1] + 1
        nr = len(t['regs'])
        for _ in range(nops):
            r = rnd.random()
            h = rnd.randint(0, nr - 1)
            inf = t['info'][h]
            ty = inf['ty']
            pool = inf['ins'] + inf['outs'] + inf['und'] + boundary_values(ty)[:6] + [rnd.getrandbits(BITS[ty])]
            if r < 0.3:
                sc.append(set_(h if rnd.random() < 0.95 else nr, ty if rnd.random() < 0.95 else (ty + 1) % 8, rnd.choice(pool)))
            elif r < 0.45:
                bty = ty if rnd.random() < 0.85 else rnd.choice([(ty + 3) % 8, (ty + 4) % 8, (ty + 1) % 8])       # operands of another type are refused
                sc.append(bit(rnd.choice(['bitset', 'bitclr']), h if rnd.random() < 0.95 else nr + rnd.randint(0, 1), bty, rnd.choice([1, 2, 0x8000, 0xFFFF, 1 << (BITS[bty] - 1), rnd.getrandbits(BITS[bty])])))
            elif r < 0.8:
                a = rnd.randint(lo, hi)
                n = rnd.randint(1, 6)
                sc.append(bwrite(a, block_for(t, rnd, a, n, rnd.choice(['in', 'in', 'out', 'und', 'mixed', 'rand']))))
            elif r < 0.88:
                sc.append('get %d' % rnd.randint(0, nr))
            elif r < 0.93:
                sc.append('sanitise')
            else:
                for _ in range(rnd.randint(1, 5)):     # corruption burst, then sanitise before checked operations resume
                    ar = rnd.choice([x for x in t['areas'] if x[1] > 0])
                    sc.append('corrupt %d %d' % (rnd.randint(ar[0], ar[0] + ar[1] - 1), rnd.choice([0, 1, 0xFFFF, 0x7F80, 0x7FF0, rnd.randint(0, 0xFFFF)])))
                sc.append('sanitise')
        yield rebased(sc, rnd, 0.3)


def run(tier):
    v = vf.Verdict('C05', tier)
    vf.build()
    quick = tier != 'thorough'
    vf.graph_flow(v, 'RegTableMC.tla', 'RegTableMC.cfg' if quick else 'RegTableMCt.cfg', 'regtab', 'rtmc',
                  depth=3 if quick else 4, budget=40000 if quick else 800000, walks=200 if quick else 2000, walklen=3 if quick else 4,
                  nontrivial=lambda u, evl, post: u != post or not evl.split(' | ')[1].startswith('0'), heap='16g')
    hs = []
    for rnd in vf.rounds(tier, 5):
        hs += list(histories(rnd, 40 if quick else 200, 300 if quick else 500, [U16, U32, U64, S16, S32, F32, F64, S64]))
    vf.trace_flow(v, 'RegTableTrace.tla', 'RegTableTrace.cfg', 'regtab', hs, 'hist')
    v.cov['rule'] = ('E0/E1: complete bounded-depth state graph of RegTableMC.tla (4 tables, boundary operands, block lengths 1-2, one pending corruption), every edge replayed; '
                     'E2: random histories of 300-500 operations on generated tables. distinct_nontrivial = model transitions that change the state or are refusals.')
    v.cov['exhaustive'] = True
    v.finish()
