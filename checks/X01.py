"""X01 (extra, not a listed property): protocol server whose memory backend is a register table - RegServer.tla."""
import random
import vf
from regcommon import *
from regpcommon import request, wire

META = dict(not_applicable='extra behaviour beyond the listed properties; run by bin/extras')


def scripts(rnd, ntables):
    for _ in range(ntables):
        t = make_table(rnd, [U16, U32, U64, S16, F32])
        t['areas'] = [a[:6] + (0,) if a[6] == 1 and rnd.random() < 0.5 else a for a in t['areas']]
        if not t['regs']:
            continue
        sc = [table_line(t)]
        lo = max(0, t['areas'][0][0] - 1)
        hi = t['areas'][-1][0] + t['areas'][-1][1] + 1
        cap = 192
        for _ in range(120):
            tr = rnd.randint(0, 1)
            addr = rnd.randint(lo, hi)
            n = rnd.randint(0, 6)
            seq = rnd.randint(0, 65535)
            k = rnd.random()
            if k < 0.4:
                o = request(tr, 0, rnd.random() < 0.92, seq, addr, n)
            else:
                ws = block_for(t, rnd, addr, n, rnd.choice(['in', 'in', 'out', 'und', 'mixed', 'rand']))
                pl = []
                for w in ws:
                    pl += [w >> 8, w & 255] if t['be'] else [w & 255, w >> 8]
                o = request(tr, 1, True, seq, addr, n, pl)
            w = wire(tr, o)
            sc.append('serve %d %d %d %s' % (tr, cap, len(w), ' '.join(map(str, w))))
            if rnd.random() < 0.1:
                sc.append('bread %d %d' % (lo + 1, 3))
        yield sc


def run(tier):
    v = vf.Verdict('X01', tier)
    vf.build()
    quick = tier != 'thorough'
    rnd = random.Random(vf.seed())
    ss = list(scripts(rnd, 24 if quick else 200))
    vf.trace_flow(v, 'RegServerTrace.tla', 'RegServerTrace.cfg', 'regtab', ss, 'srv')
    v.cov['distinct_nontrivial'] += len(set((i, l) for i, s in enumerate(ss) for l in s if l.startswith('serve')))
    v.cov['rule'] = 'random tables x random read/write requests over both transports served by the real regp on the real table; reply octets, memory image and touched marks validated by TLC'
    v.finish()
