"""C10 persistent storage round trip / containment: Persistent.tla."""
import random
import vf

META = dict(
    engine='Persistent.tla',
    technique='TLA+ spec Persistent.tla (medium, region, three checksum algorithms, functional store/validate/fetch/reset) model-checked by TLC over a configuration grid with the C10 action properties; every generated transition/path replayed on the real persistent storage with a guarded medium; recorded random histories at large sizes validated by TLC (PersistentTrace.tla)',
    level='TLC explores, for every configuration of the grid (placement x data size x algorithm x auxiliary buffer size incl. none and 0), all histories up to the depth bound of store / partial store (every offset,length incl. overflow pairs) / validate / fetch / partial fetch / reset / single-octet alteration and checks round trip, region containment, refusal of out-of-range parts, reset fill and alteration detection as action properties; every transition of that graph and all its paths are executed on the real code and compared (return code, whole medium image incl. guard octets, fetched data, out-of-region access count); random histories with data sizes up to 300 and auxiliary buffers up to N+1 are validated by TLC.',
    note='Trusted: TLC, harness/persist.c (medium callbacks count accesses outside the region), ASan. The order and chunking of medium accesses is not compared. Checksum callbacks: library default trivial sum, ufw_crc16_arc, a harness-defined 32-bit sum (all chunkable, checked in the spec).',
)


def rnd_image(rnd, n):
    k = rnd.random()
    if k < 0.2:
        return [rnd.choice([0, 255])] * n
    return [rnd.randint(0, 255) for _ in range(n)]


def mbase(rnd, cfgline):
    """harness-level: present the medium to the library at a high base address: straddling 2^16 / 2^31, the whole medium
    just below 2^32, or the region's last octet being address 0xFFFFFFFF (the guard octets behind it then wrap to 0, 1, ...)"""
    if rnd.random() < 0.4:
        return []
    f = cfgline.split()
    msize, place, n, alg = int(f[1]), int(f[2]), int(f[3]), int(f[4])
    regend = place + (4 if alg == 3 else 2) + n
    b = rnd.choice([0x100000000 - regend, 0x100000000 - regend, 0xFFFFFFFF - msize, 0x80000000 - msize // 2, 0x10000 - msize // 2, 0x7FFFFFFF - msize, rnd.getrandbits(31)])
    return ['mbase %d %d' % (b >> 16, b & 0xFFFF)]


# image pairs whose 32-bit checksums (the harness' sum32, initial value 7) agree in their low 16 bits and differ above (found by search)
SUM32_PAIRS = [([9, 8, 243, 218, 61, 13, 11, 98, 228, 71, 168, 167], [9, 8, 128, 199, 98, 92, 85, 167, 145, 115, 100, 115]),
               ([9, 8, 111, 225, 98, 182, 255, 235, 38, 74, 141, 32], [9, 8, 62, 55, 76, 190, 125, 134, 26, 15, 120, 152]),
               ([9, 8, 100, 8, 127, 40, 34, 64, 194, 26, 22, 8], [9, 8, 151, 27, 135, 201, 162, 244, 208, 141, 58, 166])]


def crafted():
    """a partial store that changes the 32-bit checksum in its upper half only; and stores that leave the checksum as it is"""
    for A, B in SUM32_PAIRS:
        for aux in (9999, 5, 12):
            c = 'cfg %d 3 12 3 %d' % (3 + 4 + 12 + 3, aux)
            yield [c, 'store 12 %s' % ' '.join(map(str, A)), 'validate', 'storep 2 10 %s' % ' '.join(map(str, B[2:])), 'validate', 'fetch', 'reopen', 'validate',
                   'store 12 %s' % ' '.join(map(str, A)), 'validate', 'storep 0 2 9 8', 'validate', 'fetch', 'store 12 %s' % ' '.join(map(str, B)), 'validate', 'fetch']


def histories(rnd, count, nops, maxn):
    for _ in range(count):
        n = rnd.choice([1, 2, 3, 7, 16, 33, maxn, rnd.randint(1, maxn)])
        alg = rnd.choice([1, 2, 3])
        width = 4 if alg == 3 else 2
        place = rnd.choice([0, 1, 7, 100])
        aux = rnd.choice([9999, 9998, 0, 1, 2, 3, n - 1 if n > 1 else 1, n, n + 1, rnd.randint(0, n + 1)])
        msize = place + width + n + 3
        c = 'cfg %d %d %d %d %d' % (msize, place, n, alg, aux)
        sc = mbase(rnd, c) + [c]
        for _ in range(nops):
            r = rnd.random()
            if r < 0.25:
                sc.append('store %d %s' % (n, ' '.join(map(str, rnd_image(rnd, n)))))
            elif r < 0.45:
                off = rnd.choice([0, 1, n - 1, n, n + 1, -1, -2, rnd.randint(0, n)])
                ln = rnd.choice([0, 1, 2, n, rnd.randint(0, n + 1)])
                if off >= 0 and off + ln > n and rnd.random() < 0.7:
                    ln = max(0, n - off)
                ln = min(ln, 400)
                sc.append('storep %d %d %s' % (off, ln, ' '.join(map(str, rnd_image(rnd, ln)))))
            elif r < 0.6:
                sc.append('validate')
            elif r < 0.72:
                sc.append('fetch')
            elif r < 0.84:
                off = rnd.choice([0, 1, n - 1, n, n + 1, -1, rnd.randint(0, n)])
                ln = rnd.choice([0, 1, n, rnd.randint(0, n + 1)])
                sc.append('fetchp %d %d' % (off, min(ln, 400)))
            elif r < 0.88:
                sc.append('reset %d' % rnd.choice([0, 255, rnd.randint(0, 255)]))
            elif r < 0.97:
                a = rnd.randint(place, place + width + n - 1)
                sc.append('corrupt %d %d' % (a, rnd.randint(0, 255)))
                sc.append('validate')
            else:
                sc.append('reopen')
        yield sc


def run(tier):
    v = vf.Verdict('C10', tier)
    vf.build()
    quick = tier != 'thorough'
    vf.graph_flow(v, 'Persistent.tla', 'PersistentMCq.cfg' if quick else 'PersistentMC.cfg', 'persist', 'ps',
                  depth=3 if quick else 4, budget=60000 if quick else 1500000, walks=300 if quick else 3000, walklen=40,
                  nontrivial=lambda u, evl, post: u != post or evl.startswith(('validate', 'fetch')), heap='16g', prefix=lambda r, w: mbase(r, w[0]) if w and w[0].startswith('cfg') else [])
    rnd = random.Random(vf.seed())
    vf.trace_flow(v, 'PersistentTrace.tla', 'PersistentTrace.cfg', 'persist',
                  list(crafted()) + list(histories(rnd, 64 if quick else 480, 60 if quick else 150, 120 if quick else 300)), 'pstrace')
    v.cov['rule'] = ('E1: every transition of the TLC graph of Persistent.tla over the configuration grid (see cfg) up to the depth bound, all paths, '
                     'random walks, on a guarded medium. E2: random histories with N up to 300. distinct_nontrivial = distinct model transitions '
                     'that change the medium or are validate/fetch operations.')
    v.cov['exhaustive'] = True
    v.assumptions += ['medium access order/chunking not compared (R4)', 'checksum stored in host (little-endian) order']
    v.finish()
