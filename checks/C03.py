"""C03 block reads and range iteration: RegTable.tla (flat address model, overlapping registers in ascending order)."""
import random
import vf
from regcommon import *

META = dict(
    engine='RegTable.tla',
    technique='TLA+ spec RegTable.tla / RegTableMC.tla (TLC graph of six tables with every block read and iteration range from every state, all edges replayed; block read = projection of the flat word space, first unmapped address; iteration = ascending list of registers overlapping the range cut at the first non-zero callback result); register_block_read / register_foreach_in are driven over a seeded small-scope table family x every window position x callback scripts, and TLC validates every recorded call with RegTableTrace.tla',
    level='For each table of the generated family (areas readable and write-only, gaps and holes, multi-word registers) every block read (address in the window +-1, length 0..9, exact-size destination under ASan) and every iteration range (address, length) with callback scripts (all zero; +1 or -1 at call k for every k) is executed after a few block writes made the content non-trivial; TLC validates each recorded call: success iff all addresses mapped, the words in order with zero for non-readable areas, first unmapped address otherwise; the sequence of handles the callback saw, the result and the failure address.',
    note='Trusted: TLC, harness/regtab.c, ASan for writes outside the destination. Tables are also run at high base addresses (straddling 2^16 / 2^31, ending at 0xFFFFFFFE); an area reaching 2^32 itself and requests wrapping past it are not exercised. One table has 66000 registers (handles beyond 2^16).',
)


def scripts(rnd, ntables, types):
    for ti in range(ntables):
        t = make_table(rnd, types, shape=SHAPES[ti] if ti < len(SHAPES) else None)
        if not t['regs']:
            continue
        sc = [table_line(t)]
        lo = max(0, t['areas'][0][0] - 1)
        hi = t['areas'][-1][0] + t['areas'][-1][1] + 1
        for _ in range(12):     # make the content non-trivial
            a = rnd.randint(lo, hi)
            n = rnd.randint(1, 4)
            sc.append(bwrite(a, block_for(t, rnd, a, n, 'in')))
        ops = []
        nregs = len(t['regs'])
        for addr in range(lo, hi + 1):
            for n in range(0, 10):
                ops.append('bread %d %d' % (addr, n))
                ops.append('foreach %d %d 0' % (addr, n))
                for k in range(min(nregs, 4)):
                    s = [0] * k + [rnd.choice([1, -1, 5, -3, 65536, 32768, 131072, -65536, 2147483647, -2147483648, 40000])]      # any non-zero int stops it, by its sign
                    if n > 0 and rnd.random() < 0.4:
                        ops.append('foreach %d %d %d %s' % (addr, n, len(s), ' '.join(map(str, s))))
        rnd.shuffle(ops)
        yield rebased(sc + ops, rnd)


def noread_tables(rnd):
    """areas without a read function (register-less, so that nothing but block reads goes there): they read as zero, flagged readable or not"""
    out = []
    for be in (0, 1):
        for rd in (0, 1):
            areas = [area(2, 3), area(5, 2, rd=rd, kind=3), area(7, 2)]
            regs = [reg(U16, 2, 0, 0, 0, 0x1111), reg(U32, 3, 0, 0, 0, 0x22223333), reg(U16, 7, 0, 0, 0, 0x4444)]
            sc = [tinit(be, areas, regs)]
            sc += ['bwrite 5 2 43981 4660'] if rd else []
            for addr in range(1, 10):
                for n in range(0, 8):
                    sc.append('bread %d %d' % (addr, n))
            out.append(sc)
    return out


def big_table(rnd):
    """a table with more registers than a 16-bit handle can name (built inside the harness): reads and ranges around handle 2^16"""
    sc = []
    for be, base in ((0, None), (1, (0xFFFE, 0xFE20))):
        if base:
            sc.append('abase %d %d' % base)
        sc += ['tinitbig 66000 %d' % be, 'get 65535', 'get 65536', 'get 65999', 'get 66000', 'set 65990 0 0 0 0 0 4242', 'get 65990', 'get 454']
        for addr, n in ((65990, 10), (65530, 10), (65536, 1), (65535, 2), (65999, 1), (65999, 5), (0, 3)):
            sc.append('foreach %d %d 0' % (addr, n))
            sc.append('foreach %d %d 2 0 %d' % (addr, n, rnd.choice([-1, 1])))
            sc.append('bread %d %d' % (addr, min(n, 6)))
        sc += ['bwrite 65600 2 1 2', 'get 65600', 'get 64', 'bread 65995 6']
    return [sc]


def run(tier):
    v = vf.Verdict('C03', tier)
    vf.build()
    quick = tier != 'thorough'
    # E0/E1: from every state of the bounded-depth graph of RegTableMC.tla (four tables, after one checked operation)
    # every block read (n 0..4) and every iteration range with six callback scripts; every edge replayed
    vf.graph_flow(v, 'RegTableMC.tla', 'RegTableMC3.cfg', 'regtab', 'rtmc3', depth=3, budget=20000 if quick else 600000,
                  walks=100, walklen=2, nontrivial=lambda u, evl, post: evl.startswith(('bread', 'foreach')), heap='16g')
    ss = []
    for rnd in vf.rounds(tier, 4):
        ss += list(scripts(rnd, 36 if quick else 200, [U16, U32, U64, F32, S16] if quick else list(range(8))))
    vf.trace_flow(v, 'RegTableTrace.tla', 'RegTableTrace.cfg', 'regtab', ss, 'br')
    vf.trace_flow(v, 'RegTableTrace.tla', 'RegTableTraceBig.cfg', 'regtab', big_table(rnd), 'brbig')
    vf.trace_flow(v, 'RegTableTrace.tla', 'RegTableTrace.cfg', 'regtab', noread_tables(rnd), 'brnr')
    v.cov['distinct_nontrivial'] += len(set((i, l) for i, s in enumerate(ss) for l in s if l.startswith(('bread', 'foreach'))))
    v.notes['tables'] = len(ss)
    v.cov['rule'] = ('seeded family of well-formed tables; for each, every (address, length 0..9) block read and iteration range, iteration also with callback scripts; '
                     'each recorded call validated by TLC. distinct_nontrivial = distinct (table, call) pairs.')
    v.finish()
