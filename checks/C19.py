"""C19 ring buffer: RingBuffer.tla (abstract queue + implementation-shaped head/tail/data, refinement as invariant)."""
import random
import vf

META = dict(
    engine='RingBuffer.tla',
    technique='TLA+ spec RingBuffer.tla (bounded queue refined by head/tail/data) model-checked by TLC (plus Apalache: size/empty/full agreement inductive on the abstraction RingBufferAbs.tla for unbounded capacity, refinement checked by TLC); every generated transition/path replayed on octet_ring, a uint32_t and a double instantiation; recorded random histories validated by TLC (RingBufferTrace.tla)',
    level='TLC explores all reachable (head, tail, data, override, queue) states for capacities up to the bound over a two-value alphabet and checks queue refinement, size/empty/full agreement and both iterator invariants in each; every transition of that graph, all paths to a fixed depth and random walks are executed on the real macros (three element types: octets, uint32_t, double; exact-size blocks under ASan) comparing return value, size/empty/full and both iterator sequences; long random histories at larger capacities are validated by TLC.',
    note='Trusted: TLC, harness/ring.c (projection by the public size/empty/full/iterator API only), ASan. Capacity 0 is outside the API contract.',
)


def big_histories():
    # rings of more than 2^16 elements: filled inside the harness, both iterators walked over all of them, then a few operations
    # (validated with RingBufferTraceBig.cfg: every observation against the model, without the quadratic per-state invariants)
    for ty, cap, k in ((32, 70000, 66000), (8, 65537, 65537)):
        yield ['init %d %d' % (cap, ty), 'fill %d 3' % k, 'get', 'put 9', 'get'] + (['fill %d 11' % (cap - k), 'put 1', 'override 1', 'put 2', 'get'] if cap > k else ['put 1', 'override 1', 'put 2', 'get'])


def histories(rnd, count, nops):
    for _ in range(count):
        ty = rnd.choice([8, 32, 64])
        cap = rnd.choice([1, 2, 3, 5, 8, 16, 31, 64, 257])
        top = 255 if ty == 8 else 2 ** 31 - 1        # (a double holds x + 0.5 exactly up to 2^52)
        sc = ['init %d %d' % (cap, ty)]
        pput = rnd.choice([0.35, 0.5, 0.7])
        for _ in range(nops):
            r = rnd.random()
            if r < pput:
                sc.append('put %d' % rnd.randint(0, top))
            elif r < 0.92:
                sc.append('get')
            elif r < 0.94:
                sc.append('clear')
            elif r < 0.99:
                sc.append('override %d' % rnd.randint(0, 1))
            else:
                cap = rnd.choice([1, 2, 3, 5, 8, 16])
                sc.append('init %d %d' % (cap, ty))
        yield sc


def run(tier):
    v = vf.Verdict('C19', tier)
    vf.build()
    quick = tier != 'thorough'
    vf.graph_flow(v, 'RingBuffer.tla', 'RingBufferMC.cfg' if quick else 'RingBufferMC4.cfg', 'ring', 'rb',
                  depth=9 if quick else 11, budget=40000 if quick else 1500000,
                  walks=300 if quick else 3000, walklen=300,
                  nontrivial=lambda u, evl, post: u != post)
    # unbounded capacities: Apalache proves size/empty/full agreement inductive on RingBufferAbs.tla; RefinesAbs (TLC) ties it in
    import subprocess, os
    apa = []
    for init, length in (('Init', '0'), ('IndInit', '1')):
        r = subprocess.run(['timeout', '300', 'apalache-mc', 'check', '--init=' + init, '--inv=IndInv', '--length=' + length,
                            '--out-dir=' + os.path.join(vf.OUT, '_apalache'), 'RingBufferAbs.tla'],
                           cwd=vf.SPEC, stdout=subprocess.PIPE, stderr=subprocess.STDOUT, text=True)
        ok = 'EXITCODE: OK' in r.stdout
        apa.append(dict(init=init, length=int(length), ok=ok))
        if not ok:
            print(r.stdout[-1500:])
            vf.die('Apalache did not discharge the inductive invariant of RingBufferAbs.tla (%s)' % init)
    v.notes['apalache_inductive_invariant'] = apa
    rnd = random.Random(vf.seed())
    vf.trace_flow(v, 'RingBufferTrace.tla', 'RingBufferTrace.cfg', 'ring',
                  histories(rnd, 48 if quick else 320, 300 if quick else 1000), 'rbtrace')
    vf.trace_flow(v, 'RingBufferTrace.tla', 'RingBufferTraceBig.cfg', 'ring', list(big_histories()), 'rbbig')
    v.cov['rule'] = ('E1: every transition of the TLC state graph of RingBuffer.tla (capacities 1..MaxCap, alphabet {1,2}, '
                     'element types u8/u32, override on/off) executed on the real ring buffer, all paths to the stated depth, '
                     'random walks; E2: random histories (capacity up to 257) validated by TLC. '
                     'distinct_nontrivial = distinct model transitions that change the model state.')
    v.cov['exhaustive'] = True
    v.assumptions += ['only return values, size/empty/full and iterator sequences are compared (R4); head/tail are driven through, not compared',
                      'capacity >= 1 (API precondition)']
    v.finish()
