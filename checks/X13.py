"""X13 (extra): the repository's own test programs as the workload - every byte-buffer and checksum call they make (directly or through
length-prefix, varint, endpoints, protocol code) is recorded by link-time interposition and validated by TLC against ByteBuffer.tla / Crc16.tla."""
import vf

META = dict(not_applicable='extra behaviour beyond the listed properties; run by bin/extras')


def run(tier):
    v = vf.Verdict('X13', tier)
    vf.build()
    nprogs, tap_ok, counts, skipped = vf.suite_flow(v, ('bb', 'crc', 'vi'))
    v.cov['distinct_nontrivial'] += sum(counts.values())
    v.cov['rule'] = ('%d test programs of the repository (%d TAP assertions, all passing with the wrappers in place); %d recorded byte-buffer calls '
                     '(%d on objects that are not well-formed or larger than 1 KiB were let through unrecorded) %d checksum calls and %d varint calls (buffer decoders, encoders, length queries; VarintTrace.tla), each validated as the '
                     'action of that name from the recorded pre-state, with the action properties of C18 checked on every step' % (nprogs, tap_ok, counts['bb'], skipped, counts['crc'], counts['vi']))
    v.cov['exhaustive'] = False
    v.finish()
