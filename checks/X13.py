"""X13 (extra): the repository's own test programs as the workload - every byte-buffer and checksum call they make (directly or through
length-prefix, varint, endpoints, protocol code) is recorded by link-time interposition and validated by TLC against ByteBuffer.tla / Crc16.tla."""
import glob
import json
import os
import subprocess
import vf

META = dict(not_applicable='extra behaviour beyond the listed properties; run by bin/extras')


def run(tier):
    v = vf.Verdict('X13', tier)
    vf.build()
    lock = os.path.join(vf.BUILD, '.lock')
    r = subprocess.run('flock %s make -s -C %s -j%d suite' % (lock, os.path.join(vf.ROOT, 'harness'), vf.NCPU), shell=True,
                       stdout=subprocess.PIPE, stderr=subprocess.STDOUT, text=True)
    if r.returncode != 0:
        print(r.stdout[-3000:])
        vf.die('build of the wrapped test programs failed')
    out = vf.outdir('X13')
    base = os.path.join(out, 'suite-trace')
    for suffix in ('.bb', '.crc'):
        if os.path.exists(base + suffix):
            os.remove(base + suffix)
    progs = sorted(p for p in glob.glob(os.path.join(vf.BUILD, 'suite', 't-*')) if not p.endswith('.d'))
    tap_ok = 0
    for p in progs:
        env = dict(os.environ, UFW_SUITE_TRACE=base, ASAN_OPTIONS='detect_leaks=0')
        r = subprocess.run([p], env=env, stdout=subprocess.PIPE, stderr=subprocess.STDOUT, text=True, timeout=900)
        bad = [ln for ln in r.stdout.split('\n') if ln.startswith('not ok')]
        tap_ok += sum(1 for ln in r.stdout.split('\n') if ln.startswith('ok'))
        if r.returncode != 0 or bad:
            v.problem('SUITE/' + os.path.basename(p), ['#suite ' + os.path.basename(p)], 'test program fails when linked against the wrappers: rc=%d %s' % (r.returncode, bad[:2]))
    n_bb = sum(1 for _ in open(base + '.bb'))
    n_crc = sum(1 for _ in open(base + '.crc'))
    for mod, cfg, path, n in (('ByteBufferSuite.tla', 'ByteBufferSuite.cfg', base + '.bb', n_bb), ('Crc16Trace.tla', 'Crc16Trace.cfg', base + '.crc', n_crc)):
        ok, matched, r = vf.validate_trace(mod, cfg, path, 'suite')
        if not ok:
            ok, matched, r = vf.validate_trace(mod, cfg, path, 'suite')
        v.add_tlc(r)
        if not ok:
            lines = open(path).read().split('\n')
            bad = min(matched, len(lines) - 1)
            v.problem('TRACE/' + mod, ['#trace %s %s' % (mod, cfg)] + lines[max(0, bad - 1):bad + 1],
                      'specification rejects recorded event %s %s' % (lines[bad][:300], (r.violation or '').split('\n')[0]))
    calls = sum(1 for ln in open(base + '.bb') if '"adopt"' not in ln and '"@"' not in ln and '"skipped"' not in ln)
    skipped = sum(json.loads(ln)['a'][0] for ln in open(base + '.bb') if '"skipped"' in ln)
    v.cov['traces_validated_against_impl'] += len(progs)
    v.cov['evaluations'] += calls + n_crc
    v.cov['distinct_nontrivial'] += len(set(ln for ln in open(base + '.bb') if '"adopt"' not in ln and '"@"' not in ln))
    v.cov['rule'] = ('%d test programs of the repository (%d TAP assertions, all passing with the wrappers in place); %d recorded byte-buffer calls '
                     '(%d on objects that are not well-formed or larger than 1 KiB were let through unrecorded) and %d checksum calls, each validated as the '
                     'action of that name from the recorded pre-state, with the action properties of C18 checked on every step' % (len(progs), tap_ok, calls, skipped, n_crc))
    v.cov['exhaustive'] = False
    v.finish()
