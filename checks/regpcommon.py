"""Input generators for the register-protocol checks (C06-C09).  These build *inputs* only; every verdict comes from TLC."""
import zlib

END, ESC = 192, 219
T_RREQ, T_RRESP, T_WREQ, T_WRESP, T_META = 0, 1, 2, 3, 15


def crc16(data, crc=0):
    for d in data:
        crc ^= d
        for _ in range(8):
            crc = (crc >> 1) ^ 0xA001 if crc & 1 else crc >> 1
    return crc


def frame(ftype, opts, meta, seq, addr, bs, payload, hdcrc=None, plcrc=None):
    h = [(meta << 4) | opts, (ftype << 4) | 0, seq >> 8, seq & 255,
         (addr >> 24) & 255, (addr >> 16) & 255, (addr >> 8) & 255, addr & 255,
         (bs >> 24) & 255, (bs >> 16) & 255, (bs >> 8) & 255, bs & 255]
    pc = crc16(payload) if plcrc is None else plcrc
    plc = [pc >> 8, pc & 255] if opts & 4 else []
    hc = crc16(h + plc) if hdcrc is None else hdcrc
    hdc = [hc >> 8, hc & 255] if opts & 2 else []
    return h + hdc + plc + list(payload)


def opts_for(tr, ws16, has_payload):
    return (1 if ws16 else 0) | (2 if tr == 0 else 0) | (4 if tr == 0 and has_payload else 0)


def request(tr, write, ws16, seq, addr, n, payload=()):
    return frame(T_WREQ if write else T_RREQ, opts_for(tr, ws16, write and len(payload) > 0), 0, seq, addr, n, payload)


def slip(o):
    out = []
    for x in o:
        out += [ESC, 220] if x == END else [ESC, 221] if x == ESC else [x]
    return out + [END]


def varint(n):
    out = []
    while True:
        if n < 128:
            return out + [n]
        out.append(128 | (n & 127))
        n >>= 7


def wire(tr, o):
    return slip(o) if tr == 0 else varint(len(o)) + list(o)


def flavour_of(w):
    """source flavour of the harness (octet-style, chunk-style, fragmenting chunk-style, chunk-style with getbuffer extension):
    derived from the wire octets so that every family exercises all four; the model's verdict does not depend on it"""
    return zlib.crc32(bytes(x & 255 for x in w)) % 4


def flavoured(line):
    """give a TLC-emitted rx case (field 5 = allocation failure 0/1) a source flavour and an allocator flavour"""
    head, sep, tail = line.partition(' | ')
    f = head.split()
    if f[0] != 'rx':
        return line
    nd = int(f[9])
    w = list(map(int, f[11 + nd:]))
    k = zlib.crc32(bytes(x & 255 for x in w))
    f[5] = str(int(f[5]) | (((k >> 8) & 1) << 1) | ((k % 4) << 2))
    return ' '.join(f) + sep + tail


def rx(tr, mem16, cap, w, mustfail=0, allocfail=0, verdict=0, vaddr=0, data=()):
    allocfail |= flavour_of(w) << 2
    return 'rx %d %d %d %d %d %d %d %d %d %s %d %s' % (mustfail, tr, mem16, cap, allocfail, verdict, vaddr >> 16, vaddr & 0xFFFF,
                                                        len(data), ' '.join(map(str, data)), len(w), ' '.join(map(str, w)))


def rxn(tr, mem16, cap, w, mustfail=0, allocfail=0, verdict=0, vaddr=0, data=()):
    return 'rxn' + rx(tr, mem16, cap, w, mustfail, allocfail, verdict, vaddr, data)[2:]


def session(rnd, tr, mem16, cap, units):
    """units: list of (unframed frame octets, kwargs for the cycle). One stream, one protocol instance."""
    stream = []
    for o, kw in units:
        stream += wire(tr, o)
    sc = ['rxopen %d %d %d %d %s' % (tr | (rnd.randrange(4) << 2), mem16, cap, len(stream), ' '.join(map(str, stream)))]
    for o, kw in units:
        sc.append(rxn(tr, mem16, cap, wire(tr, o), **kw))
    return sc
