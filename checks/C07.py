"""C07 corrupted frames: Regp.tla Classes (independent reading of doc/regp.txt with the real CRC) via RegpTrace.tla."""
import random, itertools
import vf
from regpcommon import *

META = dict(
    engine='Regp.tla',
    technique='TLA+ spec Regp.tla: Classes(o) is an independent reading of doc/regp.txt (structure, header checksum, payload size, payload checksum iff declared, CRC-16/ARC evaluated bit-exactly); a corpus of frames of every type is corrupted by every single-bit flip, two-bit flips in the protected fields, every all-ones/inverting burst of length 2..16 at every bit offset, every truncation and small extensions, plus generated frames with every option-bit combination on both transports; the real receiver+processor runs on each and TLC validates verdict class, absence of any backend access, the meta message / error response sent, and - as spec-level checks - that every corruption of the guaranteed family classifies as not-ok (RegpMC.tla: exhaustive over a corpus; MustFail on every generated input)',
    level='For each corrupted frame the recorded run is validated by TLC: error class in the set of applicable classes (bad header encoding, bad header checksum, implausible payload size, bad payload checksum), no backend call, the corresponding meta message (header faults) or error response (payload faults of requests) on the wire and never an acknowledgement; TLC additionally checks on the specification that no corruption inside the family C07 names (1-/2-bit errors and bursts up to 16 bits in address, size, sequence, checksum or payload octets; single-bit errors of the first header word; truncation, extension) yields a frame the protocol document accepts. Arbitrary option-bit combinations and random octet strings on both transports compare the receiver-s verdict with the independent reading.',
    note='Trusted: TLC, harness/regp.c, my reading of doc/regp.txt. Errors are applied to the frame octets before SLIP encoding (channel errors that hit the framing octets are part of C09-s random streams). Quick tier samples the two-bit flips; thorough enumerates them for the short frames.',
)


def corpus(rnd):
    out = []
    for ws16 in (0, 1):
        ws = 2 if ws16 else 1
        out.append((request(0, 0, ws16, 0x1234, 0x00010002, 5), ws16))
        for n in (1, 2, 5):
            out.append((request(0, 1, ws16, 0xFFFF, 0x100, n, [rnd.randint(0, 255) for _ in range(n * ws)]), ws16))
        out.append((frame(T_RRESP, opts_for(0, ws16, True), 0, 7, 0x20, 2, [rnd.randint(0, 255) for _ in range(2 * ws)]), ws16))
        # payloads whose checksum is 0x0000 (all-zero data): the checksum field then equals the "no payload" value
        out.append((request(0, 1, ws16, 0x0102, 0x300, 3, [0] * (3 * ws)), ws16))
        out.append((frame(T_RRESP, opts_for(0, ws16, True), 0, 8, 0x20, 1, [0] * ws), ws16))
    # frames whose *header* checksum happens to be 0x0000 / 0xFFFF, and a payload whose checksum is 0xFFFF (found by search)
    for want in (0x0000, 0xFFFF):
        for sq in range(65536):
            o = request(0, 0, 0, sq, 0x0A0B0C0D, 3)
            if (o[12] << 8 | o[13]) == want:
                out.append((o, 0))
                break
    for x in range(65536):
        if crc16([x >> 8, x & 255]) == 0xFFFF:
            out.append((request(0, 1, 0, 0x0203, 0x400, 2, [x >> 8, x & 255]), 0))
            break
    out.append((frame(T_WRESP, opts_for(0, 0, False), 0, 7, 0x20, 0, []), 0))
    out.append((frame(T_WRESP, opts_for(0, 0, True), 7, 9, 0x20, 4, [0, 0, 0, 0x21]), 0))
    out.append((frame(T_META, opts_for(0, 0, False), 1, 0, 0, 0, []), 0))
    return out


def flips(o, bits):
    """bit b of the frame in *transmission order*: serial links send the least significant bit of each octet first,
    which is also the order the reflected CRC-16/ARC is defined over - a burst is contiguous in that order"""
    c = list(o)
    for b in bits:
        c[b // 8] ^= 1 << (b % 8)
    return c


def scripts(rnd, quick):
    sc = []
    cap = 192
    for o, ws16 in corpus(rnd):
        nb = len(o) * 8
        mem16 = ws16
        # every single-bit flip (first header word included)
        for b in range(nb):
            sc.append(rx(0, mem16, cap, wire(0, flips(o, [b])), mustfail=1))
        # the same single-bit errors while the receiver is short of memory (the allocator refuses; the receive block is smaller than the
        # frame): a frame with a damaged header is classified all the same - header encoding / header checksum - and not answered as
        # if its sequence number and address could be trusted
        for b in range(nb):
            if b % 3 == rnd.randrange(3):
                sc.append(rx(0, mem16, cap, wire(0, flips(o, [b])), mustfail=1, allocfail=1))
                sc.append(rx(0, mem16, rnd.choice([16, 16, 17, max(16, len(o) - 1), 14]), wire(0, flips(o, [b])), mustfail=1))
        # two-bit flips inside the protected fields (octet 2 onward)
        prot = list(range(16, nb))
        pairs = list(itertools.combinations(prot, 2))
        if quick or len(o) > 18:
            pairs = rnd.sample(pairs, min(len(pairs), 700 if quick else 6000))
        for a, b in pairs:
            sc.append(rx(0, mem16, cap, wire(0, flips(o, [a, b])), mustfail=1))
        # bursts of length 2..16 at every bit offset (transmission order): inverted and random patterns with first/last bit hit.
        # A burst inside one checksum region (header octets / header checksum / payload checksum / payload) must be caught
        # (flag 1); one that crosses a checksum-field boundary is claimed by C07 but not guaranteed by the protocol (flag 3)
        hl = 12 + (2 if o[0] & 2 else 0) + (2 if o[0] & 4 else 0)

        def region(k):
            return 0 if k < 12 else 1 if k < 14 else 2 if k < hl else 3
        for ln in range(2, 17):
            for start in range(16, nb - ln + 1):
                flag = 1 if region(start // 8) == region((start + ln - 1) // 8) else 3
                sc.append(rx(0, mem16, cap, wire(0, flips(o, list(range(start, start + ln)))), mustfail=flag))
                if not quick or rnd.random() < 0.3 or flag == 3:
                    inner = [start] + [start + k for k in range(1, ln - 1) if rnd.random() < 0.5] + [start + ln - 1]
                    sc.append(rx(0, mem16, cap, wire(0, flips(o, inner)), mustfail=flag))
        # truncations and extensions
        for k in range(0, len(o)):
            sc.append(rx(0, mem16, cap, wire(0, o[:k]), mustfail=1))
        for ext in ([0], [0, 0], [1, 2, 3], [255]):
            sc.append(rx(0, mem16, cap, wire(0, o + ext), mustfail=1))
    # the recorded witness of the open finding (KNOWN_FINDINGS.txt): a 9-bit burst across block size / header checksum
    wit = request(0, 0, 1, 65535, 0x0100, 3)
    sc.append(rx(0, 1, cap, wire(0, flips(wit, [90, 91, 96, 98])), mustfail=3))
    # generated frames: every combination of the option bits (incl. the reserved one) on both transports, consistent and inconsistent checksums
    for tr in (0, 1):
        for opts in range(16):
            for ftype in (T_RREQ, T_WREQ, T_RRESP, T_WRESP, T_META, 4, 9):
                for n, plen in ((0, 0), (1, 1), (1, 2), (2, 4), (2, 3), (3, 2)):
                    for variant in range(3):
                        meta = 0 if ftype in (T_RREQ, T_WREQ) else rnd.choice([0, 1, 2, 11, 12, 15])
                        pl = [rnd.randint(0, 255) for _ in range(plen)]
                        o = frame(ftype, opts, meta, rnd.randint(0, 65535), rnd.getrandbits(32), n, pl,
                                  hdcrc=None if variant != 1 else rnd.getrandbits(16), plcrc=None if variant != 2 else rnd.getrandbits(16))
                        sc.append(rx(tr, opts & 1, cap, wire(tr, o), verdict=0, data=[9] * 8))
    for _ in range(500 if quick else 20000):
        tr = rnd.randint(0, 1)
        o = [rnd.randint(0, 255) for _ in range(rnd.choice([0, 1, 11, 12, 13, 14, 15, 16, 17, 20, 30]))]
        if len(o) > 1 and rnd.random() < 0.7:
            o[1] = (rnd.choice([0, 1, 2, 3, 15]) << 4)       # plausible type / version nibble
        sc.append(rx(tr, rnd.randint(0, 1), cap, wire(tr, o), data=[7] * 8))
    rnd.shuffle(sc)
    for i in range(0, len(sc), 400):
        yield sc[i:i + 400]


def run(tier):
    v = vf.Verdict('C07', tier)
    vf.build()
    quick = tier != 'thorough'
    # E0: the CRC guarantee model-checked on the specification (every 1-bit error, every 2-bit error behind the first
    # header word, every burst pattern up to MaxBurst bits, truncations/extensions of a corpus built by RegpOps)
    e1cases = []
    r0 = vf.tlc_must_pass('RegpMC.tla', 'RegpMC.cfg' if quick else 'RegpMCt.cfg', 'regpmc', heap='16g',
                          sink=lambda b: e1cases.append(flavoured(b[3:])) if b.startswith('C;;') else None)
    v.add_tlc(r0)
    # E1: TLC-generated corrupted frames with the allowed observations, replayed on the real receiver
    res1 = vf.run_scripts('regp', [e1cases[i:i + 200] for i in range(0, len(e1cases), 200)], 'C07', name='mc', flavours=3, flav_every=25)
    v.exec_problems(res1, 'regp')
    v.cov['traces_validated_against_impl'] += len(e1cases)
    v.cov['evaluations'] += res1.checked
    v.cov['samples'].append(dict(kind='E1 case from TLC (RegpMC.tla): corrupted frame | allowed observations', events=e1cases[500:502]))
    v.notes['e0'] = dict(model='RegpMC.tla', cases=r0.distinct, cfg='RegpMC.cfg' if quick else 'RegpMCt.cfg', e1_cases_replayed=len(e1cases))
    ss = []
    for rnd in vf.rounds(tier, 3):
        ss += list(scripts(rnd, quick))
    vf.trace_flow(v, 'RegpTrace.tla', 'RegpTrace.cfg', 'regp', ss, 'cor', flavours=3)
    # bursts across a checksum-field boundary that the real code accepted as valid frames: the open finding
    import json as _json, glob as _glob, os as _os
    crossing = accepted = 0
    for f in _glob.glob(_os.path.join(vf.OUT, 'C07', 'cor-rec*.ndjson')):
        for line in open(f):
            if '"op":"rx"' not in line:
                continue
            e = _json.loads(line)
            if e['a'][0] == 3:
                crossing += 1
                if e['o'][0] == 0 and e['o'][1] == 0:
                    accepted += 1
                    v.problem('burst-across-checksum-boundary',
                              ['#trace RegpTrace.tla RegpTrace.cfg', 'rx ' + ' '.join(map(str, e['a']))],
                              'corrupted frame accepted as valid: %s' % line[:200], 'regp')
    v.notes['bursts_across_checksum_boundary'] = dict(tried=crossing, accepted_by_the_real_receiver=accepted)
    v.cov['distinct_nontrivial'] += len(set(l for s in ss for l in s))
    v.notes['corrupted_frames'] = sum(1 for s in ss for l in s if l.startswith('rx 1 '))
    v.cov['rule'] = ('corpus of serial frames of every type x {all 1-bit flips, (sampled) 2-bit flips in protected fields, all inverting bursts 2..16 at every offset + random bursts, '
                     'all truncations, extensions}; all option-bit combinations x frame types x payload shapes x checksum variants on both transports; random octet strings. '
                     'distinct_nontrivial = distinct inputs.')
    v.finish()
