"""C04 table initialisation: RegTable.tla (staged rules, allowed (code, index) set, post-state)."""
import random, itertools
import vf
from regcommon import *

META = dict(
    engine='RegTable.tla',
    technique='TLA+ spec RegTable.tla / RegInitMC.tla (TLC enumerates ~10^6 descriptions of a grid and checks acceptance iff WellFormed on each, emitted cases replayed; InitAllowed: staged well-formedness rules with the allowed (code, index) pairs; WellFormed: the five rules declaratively; InitMem/AreaLinks: post-state); register_init is run on an enumerated family of descriptions (area layouts x register layouts x defaults x area kinds) and TLC validates each recorded result, checks acceptance iff WellFormed as action property, and that every operation afterwards reports uninitialised',
    level='The checks enumerate area layouts (0-3 areas, bases/sizes from a small grid incl. adjacency, overlap by one word, reversed order) crossed with register layouts (0-3 registers of sizes 1/2/4 at every address of the window, plus sampled 4-5 register layouts, straddling area ends and holes), defaults inside/outside the constraint and non-finite float defaults, skip-defaults and no-write-callback areas; each description is built on the heap with exact-size arrays and initialised by the real code; TLC validates code and index (allowed set), on success the per-area first/last/count and the whole memory image (defaults loaded, everything else zero), and after failures that typed, block, iteration and sanitise calls all report uninitialised; InitAcceptsIffWellFormed is checked on every step.',
    note='Trusted: TLC, harness/regtab.c (table construction incl. end markers). Within one rule stage the first offending index may be read index-major (as coded) or rule-major (R4). Limits on the number of areas/entries (65535 / 2^32-1) are not exercised.',
)

PROBE = ['get 0', 'set 0 0 0 0 0 0 1', 'bitset 0 0 0 0 0 1', 'bread 0 1', 'bwrite 0 1 0', 'foreach 0 4 0', 'sanitise']


def area_layouts(rnd, quick):
    bases = [0, 2, 3, 4, 6, 8]
    sizes = [1, 2, 4]
    one = [[(b, s)] for b in bases for s in sizes]
    two = [[a[0], b[0]] for a in one for b in one]
    out = [[]] + one + two
    three = [[a[0], b[0], c[0]] for a in one for b in one for c in one]
    rnd.shuffle(three)
    return out + three[: (150 if quick else 1500)]


def reg_layouts(rnd, quick):
    ts = [U16, U32, U64]
    singles = [[(t, a)] for t in ts for a in range(0, 12)]
    pairs = [[x[0], y[0]] for x in singles for y in singles]
    rnd.shuffle(pairs)
    triples = []
    for _ in range(200 if quick else 3000):
        k = rnd.choice([3, 3, 4, 5])
        triples.append(sorted([(rnd.choice(ts + [S16, F32, F64, S32]), rnd.randint(0, 11)) for _ in range(k)], key=lambda x: x[1] if rnd.random() < 0.9 else -x[1]))
    return [[]] + singles + pairs[: (250 if quick else 1296)] + triples


def mkreg(rnd, ty, addr):
    lo, hi, df, ins, outs = value_set(ty, rnd)
    ck = rnd.choice([0, 1, 2, 3, 4, 5] if ty not in (F32, F64) else [0, 2, 3, 4])
    if ck == 5:
        df = (df & ~0xFFFF) | 2
    r = rnd.random()
    bad = False
    if r < 0.15 and outs and ck in (2, 3, 4):
        df = rnd.choice(outs)             # default outside the constraint
        bad = True
    elif r < 0.25 and ty in (F32, F64):
        df = rnd.choice(undecodable(ty))  # NaN / infinity / subnormal default
        bad = True
    elif r < 0.3 and ck == 5:
        df = (df & ~0xFFFF) | 1
        bad = True
    BAD_DEFAULT[0] = BAD_DEFAULT[0] or bad
    return reg(ty, addr, ck, lo, hi, df)


BAD_DEFAULT = [False]


def valid_layout(al):
    return all(al[i][0] >= al[i - 1][0] + al[i - 1][1] for i in range(1, len(al)))


def scripts(rnd, quick):
    yield [tmacro_line(0), 'get 0', 'get 51', tmacro_line(1), 'get 7', 'bread 0 4']          # a table written with the public construction macros
    als = area_layouts(rnd, quick)
    rls = reg_layouts(rnd, quick)
    good = [al for al in als if al and valid_layout(al)]
    bad = [al for al in als if not (al and valid_layout(al))]
    rnd.shuffle(bad)
    plan = [(al, 2) for al in bad[: (400 if quick else 4000)]] + [(al, 30 if quick else 150) for al in good]
    batch = []
    for al, per in plan:
        inside = [x for (b, sz) in al for x in range(b, b + sz)]
        for n in range(per):
            if al and valid_layout(al) and n % 3 != 0:
                # registers mostly placed inside the areas (ascending), so that the later stages are reached
                k = rnd.choice([1, 2, 3, 4, 5])
                addrs = sorted(rnd.sample(inside, min(k, len(inside))))
                rl = []
                for x in addrs:
                    ty = rnd.choice([U16, U16, U32, U64, S16, F32, S32, F64])
                    rl.append((ty, x))
                if rnd.random() < 0.8:   # avoid overlaps most of the time
                    fixed = []
                    nxt = 0
                    for (ty, x) in rl:
                        if x < nxt:
                            continue
                        fixed.append((ty, x))
                        nxt = x + SIZE[ty]
                    rl = fixed
            else:
                rl = rnd.choice(rls)
            areas = []
            for (b, sz) in al:
                k = rnd.random()
                areas.append(area(b, sz, rd=rnd.choice([1, 1, 0]), wr=rnd.choice([1, 1, 0]), skip=1 if k < 0.15 else 0,
                                  hasw=0 if 0.15 <= k < 0.3 else 1, kind=rnd.choice([0, 0, 1])))
            # a bare placeholder now and then: zero size, no functions, no memory, at a non-zero base (only the base tells it from the end
            # mark) - in front of an area or behind the last one; the areas behind it still count
            if areas and rnd.random() < 0.15:
                i = rnd.randint(0, len(areas))
                pb = areas[i][0] if i < len(areas) else areas[-1][0] + areas[-1][1]
                if pb != 0:
                    areas.insert(i, area(pb, 0, kind=4))
            BAD_DEFAULT[0] = False
            regs = [mkreg(rnd, ty, addr) for (ty, addr) in rl]
            batch.append(tinit(rnd.randint(0, 1), areas, regs))
            # (sanitise on a successfully initialised table is only specified when every register can be restored)
            san_ok = all(r[2] != 1 for r in regs) and all(a[5] == 1 for a in areas) and not BAD_DEFAULT[0]
            batch += rnd.sample([q for q in PROBE if q != 'sanitise' or san_ok], 3)
            if len(batch) > 600:
                yield rebased(batch, rnd, 0.4)
                batch = []
    if batch:
        yield rebased(batch, rnd, 0.4)


def run(tier):
    v = vf.Verdict('C04', tier)
    vf.build()
    quick = tier != 'thorough'
    # E0/E1: TLC enumerates a grid of ~10^6 descriptions, checks "accepts iff well-formed" on each, emits a subset with the
    # allowed results for replay on the real register_init
    cases = []
    r0 = vf.tlc_must_pass('RegInitMC.tla', 'RegInitMC.cfg', 'reginit', heap='16g',
                          sink=lambda b: cases.append(b[3:]) if b.startswith('C;;') else None)
    v.add_tlc(r0)
    res = vf.run_scripts('regtab', [[c] for c in cases], 'C04', name='ri')
    v.exec_problems(res, 'regtab')
    v.cov['traces_validated_against_impl'] += len(cases)
    v.cov['evaluations'] += res.checked
    v.notes['e0_e1'] = dict(model='RegInitMC.tla', descriptions_checked=r0.distinct, cases_replayed=len(cases),
                            accepted=sum(1 for c in cases if c.split(' | ')[1].startswith('0 0')))
    v.cov['samples'].append(dict(kind='E1 case from TLC (tinit <description> | allowed (code index) pairs or post-state)', events=cases[1000:1002]))
    ss = []
    for rnd in vf.rounds(tier, 12):
        ss += list(scripts(rnd, quick))
    vf.trace_flow(v, 'RegTableTrace.tla', 'RegTableTrace.cfg', 'regtab', ss, 'ti')
    v.cov['distinct_nontrivial'] += len(set(l for s in ss for l in s if l.startswith('tinit')))
    v.notes['descriptions'] = sum(1 for s in ss for l in s if l.startswith('tinit'))
    v.cov['rule'] = ('area layouts (all with <= 2 areas from the base/size grid, sampled 3-area layouts) x sampled register layouts (all single registers, pairs, random 3-5); '
                     'each description followed by three probing operations; validated by TLC. distinct_nontrivial = distinct descriptions.')
    v.finish()
