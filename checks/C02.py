"""C02 block writes: RegTable.tla (allowed result set per block, overlay validation, touched marks)."""
import random
import vf
from regcommon import *

META = dict(
    engine='RegTable.tla',
    technique='TLA+ spec RegTable.tla (flat word address space, overlay validation, allowed failure set per block write); the real register_block_write is driven over a seeded small-scope family of tables x every (address, length) window position x adversarial word patterns on evolving contents, and TLC validates every recorded call (result class and address in the allowed set, whole memory image, touched marks) with RegTableTrace.tla',
    level='For each table of a generated small-scope family (1-3 areas with and without gaps, RW/RO/WO/no-write-callback, memory- and callback-backed, u16/u32/u64/s16/s32/f32/f64 registers with every constraint kind at every alignment incl. registers ending at an area edge) every block write (address in the window +-1, length 1..9) is executed with word patterns chosen per overlapped register (valid, out of range, undecodable, all-ones, all-zero, random) on exact-size caller buffers under ASan; TLC validates each recorded call against the specification: success iff mapped, writable and every overlapped register still decodes and satisfies its constraint after the overlay; on success exactly the n words change and the overlapped registers are marked; on failure nothing changes and (class, address) is one of the applicable (class, first address in the request) pairs.',
    note='Trusted: TLC, harness/regtab.c (projection of atoms in table byte order, whole-image comparison), ASan for accesses outside the caller buffer / area storage. When several failure classes apply any of them is accepted (R4). Custom area callbacks never fail.',
)

TYPES_Q = [U16, U32, U64, F32, S16]
TYPES_T = [U16, U32, U64, F32, S16, S32, F64, S64]


def scripts(rnd, ntables, types, nmax):
    for ti in range(ntables):
        t = make_table(rnd, types, shape=SHAPES[ti] if ti < len(SHAPES) else None)
        if not t['regs']:
            continue
        sc = [table_line(t)]
        lo = max(0, t['areas'][0][0] - 1)
        hi = t['areas'][-1][0] + t['areas'][-1][1] + 1
        ops = []
        for addr in range(lo, hi + 1):
            for n in range(1, nmax + 1):
                for mode in ('in', 'out', 'und', 'mixed', rnd.choice(['ones', 'zero', 'rand'])):
                    ops.append(bwrite(addr, block_for(t, rnd, addr, n, mode)))
        rnd.shuffle(ops)
        for i, o in enumerate(ops):
            sc.append(o)
            if i % 97 == 96:
                sc.append('bwrite %d 0' % rnd.randint(lo, hi))
        yield rebased(sc, rnd)


def run(tier):
    v = vf.Verdict('C02', tier)
    vf.build()
    quick = tier != 'thorough'
    ss = []
    for rnd in vf.rounds(tier, 5):
        ss += list(scripts(rnd, 40 if quick else 200, TYPES_Q if quick else TYPES_T, 6 if quick else 9))
    vf.trace_flow(v, 'RegTableTrace.tla', 'RegTableTrace.cfg', 'regtab', ss, 'bw')
    nb = sum(len(s) - 1 for s in ss)
    v.cov['distinct_nontrivial'] += len(set(l for s in ss for l in s if l.startswith('bwrite')))
    v.notes['tables'] = len(ss)
    v.notes['block_writes'] = nb
    v.cov['rule'] = ('seeded family of well-formed tables; for each, every (address, length) in the window x 5 word patterns, in shuffled order on evolving contents; '
                     'each recorded call validated by TLC. distinct_nontrivial = distinct block write calls (address, length, words).')
    v.finish()
