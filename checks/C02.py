"""C02 block writes: RegTable.tla (allowed result set per block, overlay validation, touched marks)."""
import random
import vf
from regcommon import *

META = dict(
    engine='RegTable.tla',
    technique='TLA+ spec RegTable.tla (flat word address space, overlay validation, allowed failure set per block write); the real register_block_write is driven over a seeded small-scope family of tables x every (address, length) window position x adversarial word patterns on contents that evolve through block writes, typed sets and sanitise, and TLC validates every recorded call (result class and address in the allowed set, whole memory image, touched marks) with RegTableTrace.tla',
    level='For each table of a generated small-scope family (1-3 areas with and without gaps, RW/RO/WO/no-write-callback, memory- and callback-backed, u16/u32/u64/s16/s32/f32/f64 registers with every constraint kind at every alignment incl. registers ending at an area edge) every block write (address in the window +-1, length 1..9) is executed with word patterns chosen per overlapped register (valid, out of range, undecodable, all-ones, all-zero, random) on exact-size caller buffers under ASan; TLC validates each recorded call against the specification: success iff mapped, writable and every overlapped register still decodes and satisfies its constraint after the overlay; on success exactly the n words change and the overlapped registers are marked; on failure nothing changes and (class, address) is one of the applicable (class, first address in the request) pairs.',
    note='Trusted: TLC, harness/regtab.c (projection of atoms in table byte order, whole-image comparison), ASan for accesses outside the caller buffer / area storage. When several failure classes apply any of them is accepted (R4). Custom area callbacks never fail.',
)

TYPES_Q = [U16, U32, U64, F32, S16]
TYPES_T = [U16, U32, U64, F32, S16, S32, F64, S64]


def scripts(rnd, ntables, types, nmax):
    for ti in range(ntables):
        t = make_table(rnd, types, shape=SHAPES[ti] if ti < len(SHAPES) else None)
        if not t['regs']:
            continue
        sc = [table_line(t)]
        lo = max(0, t['areas'][0][0] - 1)
        hi = t['areas'][-1][0] + t['areas'][-1][1] + 1
        ops = []
        for addr in range(lo, hi + 1):
            for n in range(1, nmax + 1):
                for mode in ('in', 'out', 'und', 'mixed', rnd.choice(['ones', 'zero', 'rand'])):
                    ops.append(bwrite(addr, block_for(t, rnd, addr, n, mode)))
        rnd.shuffle(ops)
        can_sanitise = all(a[5] == 1 for a in t['areas']) and all(i['ck'] != 1 for i in t['info'])
        for i, o in enumerate(ops):
            sc.append(o)
            if i % 97 == 96:
                sc.append('bwrite %d 0' % rnd.randint(lo, hi))
            # contents also change through the typed API (no touched mark) and sanitise clears the marks: block writes that
            # overlap a register only partly are judged against what the table holds then, whoever put it there
            if i % 7 == 3:
                h = rnd.randrange(len(t['info']))
                inf = t['info'][h]
                pool = inf['ins'] or [0]
                sc.append(set_(h, inf['ty'], rnd.choice(pool), rnd.choice([0, 0, 1])))
            if can_sanitise and i % 61 == 60:
                sc.append('sanitise')
        yield rebased(sc, rnd)


def _accepts(inf, reg_, bits):
    """integer registers with min / max / range constraint: does the value satisfy it (python side, only to pick discriminating cases)"""
    ty, ck, lo, hi = inf['ty'], inf['ck'], reg_[3], reg_[4]
    if ty in (S16, S32, S64):
        sg = lambda x: x - (1 << BITS[ty]) if x >> (BITS[ty] - 1) else x
        bits, lo, hi = sg(bits), sg(lo), sg(hi)
    return (ck not in (2, 4) or lo <= bits) and (ck not in (3, 4) or bits <= hi)


def _mix(t, ty, base, w, k, n):
    """the register value when words k..k+n-1 (ascending addresses) of base are replaced by those of w"""
    bw, ww = words_of(t, ty, base), words_of(t, ty, w)
    ws = bw[:k] + ww[k:k + n] + bw[k + n:]
    if not t['be']:
        ws = ws[::-1]
    v = 0
    for x in ws:
        v = (v << 16) | x
    return v


def partial_after_set(rnd, ntables, types):
    """a register whose content came through the typed API (no touched mark), then a block write that covers only part of it: the
    verdict is about the words the table holds now plus the words of the block - not about the default, not about an older content.
    For integer registers with a min / max / range constraint half of the cases are picked so that exactly that makes the difference."""
    for ti in range(ntables):
        t = make_table(rnd, types)
        multi = [h for h, inf in enumerate(t['info']) if SIZE[inf['ty']] >= 2 and inf['ck'] != 1 and len(inf['ins']) >= 1]
        if not multi:
            continue
        sc = []
        for h in multi:
            inf = t['info'][h]
            ty = inf['ty']
            sz = SIZE[ty]
            df = t['regs'][h][5]
            for k in range(sz):
                for n in range(1, sz - k + (0 if k == 0 else 1)):
                    for trial in range(6):
                        vin = rnd.choice(inf['ins'])
                        w = rnd.choice(inf['ins'] + inf['outs'] + [rnd.getrandbits(BITS[ty])])
                        if trial % 2 == 0 and ty not in (F32, F64) and inf['ck'] in (2, 3, 4):
                            for _ in range(200):
                                vin = rnd.choice(inf['ins'] + [rnd.getrandbits(BITS[ty])])
                                w = rnd.choice(inf['ins'] + inf['outs'] + [rnd.getrandbits(BITS[ty])] * 4)
                                if _accepts(inf, t['regs'][h], vin) and _accepts(inf, t['regs'][h], _mix(t, ty, vin, w, k, n)) != _accepts(inf, t['regs'][h], _mix(t, ty, df, w, k, n)):
                                    break
                            else:
                                vin = rnd.choice(inf['ins'])
                        ws = words_of(t, ty, w)[k:k + n]
                        sc += [table_line(t), set_(h, ty, vin, rnd.choice([0, 1])), bwrite(inf['addr'] + k, ws), 'get %d' % h]
        for i in range(0, len(sc), 400):
            yield rebased(sc[i:i + 400], rnd)


def run(tier):
    v = vf.Verdict('C02', tier)
    vf.build()
    quick = tier != 'thorough'
    ss = []
    for rnd in vf.rounds(tier, 5):
        ss += list(scripts(rnd, 40 if quick else 200, TYPES_Q if quick else TYPES_T, 6 if quick else 9))
        ss += list(partial_after_set(rnd, 12 if quick else 60, TYPES_Q if quick else TYPES_T))
    vf.trace_flow(v, 'RegTableTrace.tla', 'RegTableTrace.cfg', 'regtab', ss, 'bw')
    nb = sum(len(s) - 1 for s in ss)
    v.cov['distinct_nontrivial'] += len(set(l for s in ss for l in s if l.startswith('bwrite')))
    v.notes['tables'] = len(ss)
    v.notes['block_writes'] = nb
    v.cov['rule'] = ('seeded family of well-formed tables; for each, every (address, length) in the window x 5 word patterns, in shuffled order on evolving contents; '
                     'each recorded call validated by TLC. distinct_nontrivial = distinct block write calls (address, length, words).')
    v.finish()
