"""X07 (extra): the s-expression tree operations (SxOps.tla) - complete state graph, every edge and path replayed; ASan + leak ledger."""
import vf

META = dict(not_applicable='extra behaviour beyond the listed properties; run by bin/extras')


def run(tier):
    v = vf.Verdict('X07', tier)
    vf.build()
    vf.graph_flow(v, 'SxOps.tla', 'SxOpsMC.cfg', 'sxops', 'sxops', depth=4, budget=40000, walks=300, walklen=40)
    v.cov['rule'] = ('complete state graph of SxOps.tla (2 slots, <= 5 nodes; make/cons/pop/append/cxr/islist/foreach/destroy); properties NodesConserved, '
                     'PopThenConsIsIdentity, AppendKeepsElements, RefusedKeepsEverything; every edge, paths to depth 4 and walks replayed under ASan with an allocation ledger')
    v.cov['exhaustive'] = True
    v.finish()
