"""C18 byte buffer: ByteBuffer.tla (E0) -> every edge / bounded paths / walks on the real code (E1);
random long histories recorded from the real code -> ByteBufferTrace.tla (E2)."""
import random
import vf

META = dict(
    engine='ByteBuffer.tla',
    technique='TLA+ spec ByteBuffer.tla model-checked by TLC (plus Apalache: bounds invariant inductive on the counter abstraction ByteBufferAbs.tla for unbounded capacity, refinement checked by TLC); every TLC-generated transition/path replayed on the real byte buffer; recorded random histories validated by TLC (ByteBufferTrace.tla); the byte-buffer calls of the repository\'s own test programs, recorded by link-time interposition, validated by TLC (ByteBufferSuite.tla)',
    level='TLC explores every reachable state of the byte-buffer specification for capacities up to the bound and checks the bounds invariant and the FIFO action properties in it; every transition of that state graph, all paths to a fixed depth and seeded walks are executed on the real code (ASan, exact-size blocks) and compared with the prescribed observation; long random histories recorded from the real code are validated step by step by TLC against the same specification.',
    note='Trusted: TLC, the adapter harness/bytebuf.c (projection of size/used/offset/octets), ASan for out-of-block accesses. Operations on a never-set-up buffer are outside the API contract and not exercised.',
)


def histories(rnd, count, nops, maxsize):
    yield ['space 4'] + ['bigadd %d %d' % (u, n) for u in (0, 1, 5, 4096) for n in (1, 10, 64)]       # more than 4 GiB of free space
    for _ in range(count):
        size = rnd.choice([1, 2, 3, 7, 8, 16, 33, maxsize])
        sc = ['space %d' % size] if rnd.random() < 0.7 else ['use %d' % size]
        for _ in range(nops):
            r = rnd.random()
            if r < 0.30:
                n = rnd.choice([0, 1, 1, 2, 3, size // 2, size, size + 1, rnd.randint(0, size + 1)])
                sc.append('add %d %s' % (n, ' '.join(str(rnd.randint(0, 255)) for _ in range(n))))
            elif r < 0.33:
                sc.append('addself %d %d' % (rnd.randint(0, 300), rnd.randint(0, 300)))       # appended from the buffer's own filled region
            elif r < 0.50:
                sc.append('consume %d' % rnd.choice([0, 1, 1, 2, 3, size // 2, size + 1, rnd.randint(0, size + 1)]))
            elif r < 0.65:
                sc.append('consume_at_most %d' % rnd.choice([0, 1, 2, 3, size, size + 1, rnd.randint(0, size + 1)]))
            elif r < 0.68:
                sc.append('%s %d' % (rnd.choice(['addhuge', 'consumehuge', 'camhuge']), rnd.choice([0, 1, 2, size, rnd.randint(0, size + 1)])))
            elif r < 0.80:
                sc.append('rewind')
            elif r < 0.84:
                sc.append(rnd.choice(['clear', 'reset']))
            elif r < 0.90:
                sc.append('repeat')
            elif r < 0.96:
                sc.append(rnd.choice(['avail', 'rest']))
            elif r < 0.98:
                s2 = rnd.randint(0, size + 1)
                u2 = rnd.randint(0, size + 2)
                sc.append('set %d %d %d %d' % (s2, u2, rnd.randint(0, u2 + 1), rnd.choice([0, 0, 0, 1])))
                if s2 > 0 and u2 <= s2:
                    pass
            else:
                sc.append(rnd.choice(['space %d' % size, 'use %d' % size, 'null', 'space 0']))
                if sc[-1] == 'null':
                    sc.append('rewind')
                    sc.append('space %d' % size)
        yield sc


def run(tier):
    v = vf.Verdict('C18', tier)
    vf.build()
    quick = tier != 'thorough'
    cfg = 'ByteBufferMC.cfg' if quick else 'ByteBufferMC5.cfg'
    vf.graph_flow(v, 'ByteBuffer.tla', cfg, 'bytebuf', 'bb',
                  depth=3 if quick else 4, budget=30000 if quick else 600000,
                  walks=200 if quick else 2000, walklen=300,
                  nontrivial=lambda u, evl, post: u != post or ' | -1 ' in evl)
    # unbounded capacities: Apalache proves the bounds invariant inductive on the counter abstraction (ByteBufferAbs.tla),
    # TLC's RefinesAbs property (above) ties every step of ByteBuffer.tla to a step of that abstraction
    import subprocess, os
    apa = []
    for init, length in (('Init', '0'), ('IndInit', '1')):
        r = subprocess.run(['timeout', '300', 'apalache-mc', 'check', '--init=' + init, '--inv=IndInv', '--length=' + length,
                            '--out-dir=' + os.path.join(vf.OUT, '_apalache'), 'ByteBufferAbs.tla'],
                           cwd=vf.SPEC, stdout=subprocess.PIPE, stderr=subprocess.STDOUT, text=True)
        ok = 'EXITCODE: OK' in r.stdout
        apa.append(dict(init=init, length=int(length), ok=ok))
        if not ok:
            print(r.stdout[-1500:])
            vf.die('Apalache did not discharge the inductive invariant of ByteBufferAbs.tla (%s)' % init)
    v.notes['apalache_inductive_invariant'] = apa
    rnd = random.Random(vf.seed())
    hs = histories(rnd, 48 if quick else 320, 400 if quick else 1500, 64 if quick else 200)
    vf.trace_flow(v, 'ByteBufferTrace.tla', 'ByteBufferTrace.cfg', 'bytebuf', hs, 'bbtrace')
    # the repository's own test programs as a further workload: every byte-buffer call they make, directly or through the modules
    # built on the buffer, recorded by link-time interposition and validated as the action of that name (ByteBufferSuite.tla)
    vf.suite_flow(v, ('bb',))
    v.cov['rule'] = ('E1: every transition of the TLC state graph of ByteBuffer.tla (sizes 0..MaxSize, operand lengths '
                     '0..size+1, alphabet {1,2}) executed on the real buffer on exact-size heap blocks under ASan, '
                     'plus all paths to the stated depth and random walks; E2: random histories validated by TLC. '
                     'distinct_nontrivial = distinct model transitions that change the state or are refusals.')
    v.cov['exhaustive'] = True
    v.assumptions += ['operations other than set-up/rewind are only applied to a buffer that was set up (API precondition)',
                      'failure codes are compared by sign only (C18 names no codes)',
                      'out-of-block accesses are observed by ASan on exact-size heap blocks (R6)']
    v.finish()
