"""X03 (extra): buffer endpoints (sink_to_buffer / source_from_buffer) composed with the byte buffer - ByteBuffer.tla NextX."""
import random
import vf

META = dict(not_applicable='extra behaviour beyond the listed properties; run by bin/extras')


def run(tier):
    v = vf.Verdict('X03', tier)
    vf.build()
    vf.graph_flow(v, 'ByteBuffer.tla', 'ByteBufferX.cfg', 'bytebuf', 'bbx', depth=3, budget=30000, walks=200, walklen=200,
                  nontrivial=lambda u, evl, post: evl.startswith(('sinkput', 'srcget')))
    v.cov['rule'] = 'complete state graph of ByteBuffer.tla with the buffer-endpoint actions added (sizes <= 3): every edge, paths to depth 3, walks'
    v.cov['exhaustive'] = True
    v.finish()
