"""C17 endpoints: Endpoints.tla (stream, recording sink, driver scripts; adaptors and retry loops as recursive operators)."""
import random
import vf

META = dict(
    engine='Endpoints.tla',
    technique='TLA+ spec Endpoints.tla: for every (API, driver kinds, N, stream length, aux region, source script, sink script) of the enumerated family TLC computes the prescribed result and checks the C17 statements on it (exactly N in order, prefix on failure, at-most bounds, drain reaches the end); each case is replayed on the real code with scripted drivers; recorded long random transfers validated by TLC (EndpointsTrace.tla)',
    level='TLC enumerates every driver behaviour script up to the length bound over {1, 2, half, all, 0, EINTR, EAGAIN, hard error} for N up to the bound, octet- and chunk-style drivers on both sides, for get/put chunk, their at-most variants, octet get/put and the seven plumbing calls (aux regions of 1..3 octets), checks the property statements on the modelled result of each case, and emits it; every case is executed on the real library (exact-size destination/aux blocks with canaries, ASan, call budget against non-termination) and compared octet for octet; long random transfers with long random scripts are recorded and recomputed by TLC.',
    note='Trusted: TLC, harness/endp.c (scripted drivers). Assumes the library asks a chunk driver for everything still missing (request policy is part of the model). Zero-length driver returns are exercised on the N-octet read/write calls only; per-octet and aux plumbing scripts use {1, 2, all, EINTR, hard error} (the statement does not say what plumbing does with an octet driver that returns 0).',
)

RW = ['get', 'getam', 'put', 'putam']
PL = ['cbc', 'ncbc', 'dcbc', 'someaux', 'amaux', 'naux', 'daux', 'ssts', 'asts', 'nsts', 'dsts']


def chunk_sources(rnd):
    """the library's own chunk-list source: empty fragments in front, in the middle (also two in a row) and at the end"""
    sc = []
    shapes = [[(4, 4, 0)], [(4, 4, 4), (3, 3, 0)], [(4, 2, 2), (5, 0, 0), (6, 6, 1)], [(4, 4, 0), (3, 1, 1), (2, 0, 0), (7, 7, 0)],
              [(2, 0, 0), (2, 2, 2), (3, 3, 0), (1, 1, 1)], [(5, 5, 5), (5, 5, 5)], [(4, 4, 1), (6, 6, 6), (6, 3, 3), (6, 2, 2), (9, 9, 2)]]
    for sh in shapes:
        total = sum(u - o for (s, u, o) in sh)
        for act in range(0, len(sh)):
            for n in sorted(set([1, 2, max(1, total // 2), max(1, total), total + 1])):
                sc.append('chsrc %d %s %d %d' % (len(sh), ' '.join('%d %d %d' % x for x in sh), act, n))
    return sc


def e2(rnd, count, maxn):
    yield chunk_sources(rnd)
    for _ in range(count):
        sc = []
        for _ in range(10):
            api = rnd.choice(RW + RW + PL)
            sk, kk = rnd.choice([1, 2]), rnd.choice([1, 2])
            n = rnd.choice([1, 2, 7, 64, rnd.randint(1, maxn)])
            if api in RW:
                beh = [1, 2, 3, 4, 0, -4, -11]
                L = rnd.choice([n, n + 5, max(1, n - 1), n * 2])
                ss = [rnd.choice(beh) for _ in range(rnd.randint(0, 40))]
                ks = [rnd.choice(beh) for _ in range(rnd.randint(0, 40))]
                if rnd.random() < 0.3:
                    (ss if api.startswith('get') else ks).insert(rnd.randint(0, 10), -5)
                if api.startswith('get'):
                    ks = []
                else:
                    ss, L = [], 0
                R = 0
            else:
                beh = [1, 2, 4, -4] if api in ('someaux', 'amaux', 'naux', 'daux') else [1, 2, 4]
                n = min(n, 300)
                L = rnd.choice([n, n + 3, max(1, n // 2), 2 * n])
                R = rnd.choice([1, 2, 3, 8, 9] + ([11, 12, 13, 18, 21, 22, 24] if api in ('someaux', 'amaux', 'naux', 'daux') else []))
                if api in ('cbc', 'ncbc', 'dcbc', 'ssts', 'asts', 'nsts', 'dsts'):
                    R = 1
                ss = [rnd.choice(beh) for _ in range(rnd.randint(0, 30))]
                ks = [rnd.choice([1, 2, 4, -4, -11] if api in ('someaux', 'amaux', 'naux', 'daux') else [1, 2, 4]) for _ in range(rnd.randint(0, 30))]
                if rnd.random() < 0.25:
                    ss.insert(rnd.randint(0, len(ss)), -5)
                if rnd.random() < 0.25:
                    ks.insert(rnd.randint(0, len(ks)), -5)
            sc.append('%s %d %d %d %d %d %d %s %d %s' % (api, sk, kk, n, L, R, len(ss), ' '.join(map(str, ss)), len(ks), ' '.join(map(str, ks))))
        yield sc


def run(tier):
    v = vf.Verdict('C17', tier)
    vf.build()
    quick = tier != 'thorough'
    cases = []
    r = vf.tlc_must_pass('Endpoints.tla', 'EndpointsMC.cfg' if quick else 'EndpointsMCt.cfg', 'endp',
                         sink=lambda b: cases.append(b[3:]) if b.startswith('C;;') else None, heap='16g')
    v.add_tlc(r)
    scripts = [cases[i:i + 1000] for i in range(0, len(cases), 1000)]
    res = vf.run_scripts('endp', scripts, 'C17', name='endp')
    v.exec_problems(res, 'endp')
    v.cov['traces_validated_against_impl'] += len(cases)
    v.cov['evaluations'] += res.checked
    v.cov['distinct_nontrivial'] += sum(1 for c in cases if any(t in c.split(' | ')[0].split(' ')[6:] for t in ('0', '-4', '-11', '-5', '1', '2', '3')))
    v.cov['samples'] += [dict(kind='E1 case from TLC: api sk kk n L R nss ss.. nks ks.. | observation',
                              events=[c for c in cases if c.startswith('get 1')][300:302] + [c for c in cases if c.startswith('naux')][200:202])]
    v.notes['e1'] = dict(cases=len(cases), per_api={a: sum(1 for c in cases if c.startswith(a + ' ')) for a in RW + PL + ['geto', 'puto']},
                         cfg='EndpointsMC.cfg' if quick else 'EndpointsMCt.cfg')
    rnd = random.Random(vf.seed())
    vf.trace_flow(v, 'EndpointsTrace.tla', 'EndpointsTrace.cfg', 'endp', e2(rnd, 48 if quick else 480, 600 if quick else 3000), 'endptrace')
    v.cov['rule'] = ('E0/E1: every case of the enumerated family (see e1.cfg for bounds): scripts over the behaviour alphabet up to the length bound, after which the '
                     'driver behaves well; prescribed results from TLC. distinct_nontrivial = distinct cases whose scripts contain at least one partial, zero-length, '
                     'interrupted or failing driver call. E2: random long transfers.')
    v.cov['exhaustive'] = True
    v.assumptions += ['request policy: a chunk driver is asked for all that is missing', 'aux buffer: region [0, used) with offset 0']
    v.finish()
