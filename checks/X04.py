"""X04 (extra): a register-table area backed by checksummed persistent storage (composition of RegTable.tla and the
persistent storage, as in test/t-register-table-persistent-storage.c)."""
import random
import vf
from regcommon import *

META = dict(not_applicable='extra behaviour beyond the listed properties; run by bin/extras')


def scripts(rnd, ntables):
    for _ in range(ntables):
        t = make_table(rnd, list(range(8)))
        if not t['regs']:
            continue
        k = rnd.randrange(len(t['areas']))
        t['areas'] = [a[:5] + (1, 2) if i == k else (a if a[6] != 2 else a[:6] + (0,)) for i, a in enumerate(t['areas'])]
        sc = [table_line(t), 'pvalidate']
        nr = len(t['regs'])
        lo = max(0, t['areas'][0][0] - 1)
        hi = t['areas'][-1][0] + t['areas'][-1][1] + 1
        for _ in range(120):
            r = rnd.random()
            h = rnd.randrange(nr)
            inf = t['info'][h]
            if r < 0.3:
                sc.append(set_(h, inf['ty'], rnd.choice(inf['ins'] + inf['outs'] + [0])))
            elif r < 0.6:
                a = rnd.randint(lo, hi)
                n = rnd.randint(1, 5)
                sc.append(bwrite(a, block_for(t, rnd, a, n, rnd.choice(['in', 'in', 'mixed', 'rand']))))
            elif r < 0.7:
                sc.append('bread %d %d' % (rnd.randint(lo, hi), rnd.randint(0, 5)))
            elif r < 0.8:
                sc.append('get %d' % rnd.randint(0, nr))
            elif r < 0.85 and all(x[2] != 1 for x in t['regs']) and all(a[5] == 1 for a in t['areas']):    # sanitise is specified where every register can be restored
                ar = t['areas'][k]
                sc.append('corrupt %d %d' % (rnd.randint(ar[0], ar[0] + ar[1] - 1), rnd.choice([0, 1, 0xFFFF, 0x7F80])))
                sc.append('sanitise')
            else:
                sc.append('pvalidate')
        sc.append('pvalidate')
        yield sc


def run(tier):
    v = vf.Verdict('X04', tier)
    vf.build()
    quick = tier != 'thorough'
    rnd = random.Random(vf.seed())
    ss = list(scripts(rnd, 32 if quick else 300))
    vf.trace_flow(v, 'RegTableTrace.tla', 'RegTableTrace.cfg', 'regtab', ss, 'pers')
    v.cov['distinct_nontrivial'] += sum(1 for s in ss for l in s if l == 'pvalidate')
    v.cov['rule'] = 'random tables with one area backed by persistent storage (CRC-16/ARC, guard octets); histories of typed/block/sanitise operations; table semantics and medium validity validated by TLC'
    v.finish()
