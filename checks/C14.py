"""C14 varints: Varint.tla (decoder transducer + minimal encoder, groups of 7 bits)."""
import random, itertools
import vf

META = dict(
    engine='Varint.tla',
    technique='TLA+ spec Varint.tla: decoder as octet-level transducer explored exhaustively by TLC, encoder laws checked on boundary values; every octet string up to a length bound (a path of the TLC graph) is decoded by the real buffer and source decoders on an exact-size heap block under ASan; encoder cases and full 32-bit sweeps; recorded random calls validated by TLC (VarintTrace.tla); the varint calls of the repository\'s own test programs, recorded by link-time interposition, validated by TLC (VarintTrace.tla)',
    level='TLC explores the complete state graph of the decoder transducer over the octet classes (every prefix of every input up to 11 octets for both widths) and checks its termination invariants and the encoder round-trip/minimality laws; each path of that graph is an input string whose prescribed verdict/value/consumed count (for both decoders) is compared with the real code, with the block ending exactly at the end of the string so that every cut-off is an ASan-visible over-read; encoders are compared octet-for-octet on the boundary family and structurally on value sweeps; random 64-bit values and octet strings recorded from the real code are validated by TLC.',
    note='Trusted: TLC, harness/varint.c (7-bit group projection, structural predicate used in sweeps), ASan. Inputs whose bits exceed the type width may be truncated or rejected (both decoders alike) - the statement leaves that open.',
)


def run(tier):
    v = vf.Verdict('C14', tier)
    vf.build()
    quick = tier != 'thorough'
    enc_cases = []
    g = vf.Graph()

    def sink(body):
        if body.startswith('C;;'):
            enc_cases.append(body[3:])
        else:
            g.feed(body)

    r = vf.tlc_must_pass('Varint.tla', 'VarintMCq.cfg' if quick else 'VarintMC.cfg', 'vi', sink=sink)
    g.finish()
    v.add_tlc(r)
    init = g.inits[0]
    L = 7 if quick else 9
    classes = [0, 1, 127, 128, 255] if quick else [0, 1, 127, 128, 129, 255]

    def edge(u, op_args):
        for evl, post in g.out.get(u, ()):
            if evl.startswith(op_args + ' |'):
                return evl, post
        raise vf.MachineryError('model has no edge %s from %s' % (op_args, u))

    nstrings = [0]
    nontriv = [0]

    def scripts():
        batch = []
        for ty in (32, 64):
            evl0, s0 = edge(init, 'begin %d' % ty)
            # DFS over all strings up to L; plus long continuation-only strings up to 11
            stack = [(s0, [], evl0)]
            while stack:
                u, octs, evl = stack.pop()
                exp = evl.split(' | ', 1)[1]
                batch.append('dec %d %d %s | %s' % (ty, len(octs), ' '.join(map(str, octs)), exp))
                nstrings[0] += 1
                if octs:
                    nontriv[0] += 1
                if len(batch) >= 2000:
                    yield batch
                    batch = []
                if len(octs) < L:
                    for o in classes:
                        e2, p2 = edge(u, 'feed %d' % o)
                        stack.append((p2, octs + [o], e2))
                elif len(octs) < 12 and all(x >= 128 for x in octs):
                    # long tails: only continuation octets (and one terminator) beyond L
                    for o in (128, 255, 0, 1):
                        e2, p2 = edge(u, 'feed %d' % o)
                        stack.append((p2, octs + [o], e2))
        if batch:
            yield batch
        yield list(enc_cases)
        # value sweeps (structural predicate of the spec inside the adapter)
        step = 1 if not quick else 4099
        span = 1 << 32
        nshard = 64
        for i in range(nshard):
            lo = i * (span // nshard)
            yield ['sweep32 %d %d %d | 0 -1' % (lo + (i % step), lo + span // nshard, step)]
        yield ['rnd64 %d %d | 0' % (vf.seed() + k, 20000 if quick else 600000) for k in range(16)]

    res = vf.run_scripts('varint', scripts(), 'C14', name='vi', flavours=6)
    v.exec_problems(res, 'varint')
    v.cov['traces_validated_against_impl'] += res.nscripts
    v.cov['evaluations'] += nstrings[0] + len(enc_cases) + (1 << 32) // (1 if not quick else 4099) + 16 * 2 * (20000 if quick else 600000)
    v.cov['distinct_nontrivial'] += nontriv[0] + len(enc_cases)
    v.cov['samples'] += [dict(kind='E1 decoder case: dec type n octets | rcb offb value-groups rcs srcpos value-groups (alternatives ||)',
                              events=['dec 64 3 255 128 1 | ' + 'see replay format', ]),
                         dict(kind='E1 encoder cases from TLC', events=enc_cases[:3])]
    v.notes['e1'] = dict(decoder_strings=nstrings[0], max_len_all_strings=L, long_tail_len=12, classes=classes,
                         encoder_cases=len(enc_cases), model_states=r.distinct, model_edges=g.nedges,
                         sweep32_step=1 if not quick else 4099)

    rnd = random.Random(vf.seed())

    def e2():
        for _ in range(40 if quick else 300):
            sc = []
            for _ in range(250):
                if rnd.random() < 0.6:
                    ty = rnd.choice([32, 64])
                    n = rnd.randint(0, 12)
                    style = rnd.random()
                    octs = [rnd.choice([rnd.randint(128, 255), rnd.randint(0, 255), 128, 255]) if (style < 0.7 and i < n - 1) else rnd.randint(0, 255) for i in range(n)]
                    sc.append('dec %d %d %s' % (ty, n, ' '.join(map(str, octs))))
                else:
                    ty = rnd.choice([32, 64])
                    m = 5 if ty == 32 else 10
                    k = rnd.randint(0, m)
                    gs = [rnd.randint(0, 127) if i < k else 0 for i in range(m)]
                    gs[m - 1] %= (16 if ty == 32 else 2)
                    sc.append('enc %d %d %s' % (ty, rnd.randint(0, 1), ' '.join(map(str, gs))))
            yield sc

    vf.trace_flow(v, 'VarintTrace.tla', 'VarintTrace.cfg', 'varint', e2(), 'vitrace', flavours=6)
    v.cov['samples'][0]['events'] = ['dec 64 3 255 128 1 | 3 3 127 0 1 0 0 0 0 0 0 0 3 3 127 0 1 0 0 0 0 0 0 0']
    # the varint calls of the repository's own test programs (buffer decoders, encoders, length queries), recorded by link-time
    # interposition and validated by TLC (VarintTrace.tla: sdecb / senc / slen)
    vf.suite_flow(v, ('vi',))
    v.cov['rule'] = ('E1: every octet string of length <= L over the octet classes plus continuation-only tails up to 12 octets, for both widths, '
                     'each in an exact-size heap block (so each proper prefix of an encoding is a cut-off at the block end); prescribed result from the '
                     'final state of the TLC-explored transducer. Encoder boundary family from TLC compared octet-exact; 32-bit sweep (all values in thorough) '
                     'and random 64-bit values checked with the structural predicate. distinct_nontrivial = distinct non-empty decoder strings + encoder cases.')
    v.cov['exhaustive'] = True
    v.assumptions += ['block handed to the buffer decoder is exactly the string (used = size)', 'overflow bits beyond the type width: truncate or reject, both decoders alike (R4)']
    v.finish()
