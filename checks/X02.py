"""X02 (extra): the rest of the register-table API - default, compare, mcopy, user_init, set_from_hexstr - in histories."""
import random
import vf
from regcommon import *

META = dict(not_applicable='extra behaviour beyond the listed properties; run by bin/extras')


def scripts(rnd, ntables):
    for _ in range(ntables):
        t = make_table(rnd, list(range(8)))
        # mcopy needs a usable destination: every area keeps a write callback
        t['areas'] = [a[:5] + (1, a[6]) for a in t['areas']]
        if not t['regs']:
            continue
        sc = [table_line(t)]
        na, nr = len(t['areas']), len(t['regs'])
        lo = max(0, t['areas'][0][0] - 1)
        hi = t['areas'][-1][0] + t['areas'][-1][1] + 1
        for _ in range(150):
            k = rnd.random()
            if k < 0.15:
                sc.append('default %d' % rnd.randint(0, nr))
            elif k < 0.35:
                sc.append('compare %d %d' % (rnd.randint(0, nr), rnd.randint(0, nr)))
            elif k < 0.45:
                sc.append('mcopy %d %d' % (rnd.randint(0, na - 1), rnd.randint(0, na - 1)))
            elif k < 0.55:
                s = [rnd.choice([0, 0, 0, 1, -1, 7, -3]) for _ in range(rnd.randint(0, nr + 1))]
                sc.append('userinit %d %s' % (len(s), ' '.join(map(str, s))))
            elif k < 0.75:
                n = rnd.choice([0, 1, 3, 4, 5, 8, 9, 12, 16])
                chars = [ord(rnd.choice('0123456789abcdefABCDEF')) for _ in range(n)]
                if n and rnd.random() < 0.15:
                    chars[rnd.randrange(n)] = ord(rnd.choice('gG xz-'))
                sc.append('hexstr %d %d %s' % (rnd.randint(lo, hi), n, ' '.join(map(str, chars))))
            elif k < 0.9:
                h = rnd.randint(0, nr - 1)
                inf = t['info'][h]
                sc.append(set_(h, inf['ty'], rnd.choice(inf['ins'] + inf['outs'] + [0])))
            else:
                a = rnd.randint(lo, hi)
                n = rnd.randint(1, 4)
                sc.append(bwrite(a, block_for(t, rnd, a, n, 'mixed')))
        yield sc


def run(tier):
    v = vf.Verdict('X02', tier)
    vf.build()
    quick = tier != 'thorough'
    rnd = random.Random(vf.seed())
    ss = list(scripts(rnd, 32 if quick else 300))
    vf.trace_flow(v, 'RegTableTrace.tla', 'RegTableTrace.cfg', 'regtab', ss, 'xapi')
    v.cov['distinct_nontrivial'] += len(set((i, l) for i, s in enumerate(ss) for l in s))
    v.cov['rule'] = 'random tables x histories over default/compare/mcopy/userinit/hexstr mixed with checked sets and block writes; every call validated by TLC against RegTable.tla'
    v.finish()
