"""X06 (extra): instrumentable endpoints composed with the octet/chunk adaptors (Instrumentable.tla) - complete state graph, every edge replayed."""
import vf

META = dict(not_applicable='extra behaviour beyond the listed properties; run by bin/extras')


def run(tier):
    v = vf.Verdict('X06', tier)
    vf.build()
    vf.graph_flow(v, 'Instrumentable.tla', 'InstrumentableMC.cfg', 'instr', 'instr', depth=3, budget=30000, walks=200, walklen=60)
    v.cov['rule'] = ('complete state graph of Instrumentable.tla (buffer <= 3 octets, scheduled failures EIO/ENODATA at every count, octet and chunk calls of 0..3 octets, all-of-n and at-most-n); '
                     'properties ReadsInOrder, NothingBeyondSchedule, WritesStopAtSchedule, CountsAreExact; every edge replayed on the real code')
    v.cov['exhaustive'] = True
    v.finish()
