"""X09 (extra): protocol helpers outside the listed properties - an instance without memory attached, range intersections, frame predicates (RegpTrace.tla)."""
import random
import vf
from regpcommon import *

META = dict(not_applicable='extra behaviour beyond the listed properties; run by bin/extras')


def run(tier):
    v = vf.Verdict('X09', tier)
    vf.build()
    rnd = random.Random(vf.seed())
    sc = []
    for tr in (0, 1):
        for write in (0, 1):
            for ws16 in (0, 1):
                for n in (0, 1, 3):
                    for addr in (0, 0x1234, 0xFFFF0001):
                        ws = 2 if ws16 else 1
                        pl = [rnd.randint(0, 255) for _ in range(n * ws)] if write else []
                        sc.append(rx(tr, 2, 64, wire(tr, request(tr, write, ws16, rnd.randint(0, 65535), addr, n, pl)), verdict=0, data=[1, 2, 3, 4, 5, 6]))
    for a1 in (0, 5, 10):
        for s1 in (1, 4, 6):
            for a2 in (0, 3, 8, 9, 10, 20):
                for s2 in (1, 2, 7):
                    sc.append('isect %d %d %d %d' % (a1, s1, a2, s2))
    sc += ['pred %d' % t for t in (0, 1, 2, 3, 15, 99)]
    vf.trace_flow(v, 'RegpTrace.tla', 'RegpTrace.cfg', 'regp', [sc], 'misc')
    v.cov['rule'] = 'requests to an instance without memory (answered unmapped at the request address, 16-bit default word size), range intersections on a small grid, frame predicates per type; validated by TLC'
    v.finish()
