"""X08 (extra): hexdump (Hexdump.tla) - TLC enumerates configurations x data, checks that the dump reads back, and every case is replayed."""
import vf

META = dict(not_applicable='extra behaviour beyond the listed properties; run by bin/extras')


def run(tier):
    v = vf.Verdict('X08', tier)
    vf.build()
    cases = []
    r = vf.tlc_must_pass('Hexdump.tla', 'HexdumpMC.cfg', 'hexd', sink=lambda b: cases.append(b[3:]) if b.startswith('C;;') else None)
    v.add_tlc(r)
    res = vf.run_scripts('hexd', [cases[i:i + 200] for i in range(0, len(cases), 200)], 'X08', name='hexd')
    v.exec_problems(res, 'hexd')
    v.cov['traces_validated_against_impl'] += len(cases)
    v.cov['evaluations'] += res.checked
    v.cov['distinct_nontrivial'] += sum(1 for c in cases if not c.endswith('| -22'))
    v.cov['rule'] = ('octets per line 0..5 x octets per chunk 0..5 x data (all strings over {A, 0xff} up to 4, single octets of every class, 8-octet lines) x display offsets; '
                     'CaseInv: refused iff malformed configuration, hex column reads back to the data, line count, aligned columns, addresses; all cases replayed under ASan')
    v.cov['exhaustive'] = True
    v.finish()
